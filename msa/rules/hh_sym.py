"""Symbolic numbers for the evaluator of hh_eval: exact polynomial values carried along a concrete evaluation.

A `SymNum` is a polynomial with rational coefficients over named atoms (the coordinates of the input vector, cos / sin of the angle,
the coordinates of a unit axis) together with its value at one generic point.  Arithmetic (+, -, *, division by a constant, small
integer powers) is exact on the polynomial and is reduced modulo the declared relations (sin^2 = 1 - cos^2, w^2 = 1 - u^2 - v^2), so
that equal functions have the same normal form; comparisons and truth tests - the branch decisions of the evaluated function - use
the value at the generic point.  What is proved about the returned polynomials therefore holds, as an identity in all the atoms, on
the branch the generic input follows.  Anything that cannot be kept exact (square root or division by a non-constant value,
conversion to int ...) raises `Unknown`: the exact clause is then undecided, never wrong.
"""
from __future__ import annotations
import math
from fractions import Fraction
from ..sym import Poly
from .hh_np import Unknown

RELATIONS = []      # [(atom, Poly replacing atom**2)]  - set by the law that runs, see `relations`


class relations:
    def __init__(self, rels):
        self.rels = rels

    def __enter__(self):
        self.old = list(RELATIONS)
        RELATIONS[:] = self.rels
        return self

    def __exit__(self, *a):
        RELATIONS[:] = self.old
        SUBST.clear()
        ANGLES.clear()
        return False


SUBST = {}          # atom -> Poly, applied before the quadratic relations (half-angle mode: C -> 2*Ch^2 - 1, S -> 2*Sh*Ch)


def substitute(poly):
    if not SUBST or not (poly.atoms() & set(SUBST)):
        return poly
    out = Poly()
    for mono, coef in poly.t.items():
        term = Poly({(): coef})
        for a in mono:
            term = term * (SUBST[a] if a in SUBST else Poly.atom(a))
        out = out + term
    return out


def reduce(poly):
    poly = substitute(poly)
    for _ in range(24):
        changed = False
        for var, repl in RELATIONS:
            out = Poly()
            for mono, coef in poly.t.items():
                if mono.count(var) >= 2:
                    rest = list(mono)
                    rest.remove(var)
                    rest.remove(var)
                    out = out + Poly({tuple(rest): coef}) * repl
                    changed = True
                else:
                    out = out + Poly({mono: coef})
            poly = out
        if not changed:
            return poly
    raise Unknown("polynomial reduction does not terminate")


def _const(x):
    if isinstance(x, bool):
        return Poly.const(int(x))
    if isinstance(x, int):
        return Poly.const(x)
    if isinstance(x, float):
        if x != x or x in (math.inf, -math.inf):
            raise Unknown("nan / inf in an exact computation")
        return Poly.const(Fraction(x))
    raise Unknown(f"exact arithmetic with {type(x).__name__}")


def mk(p, v):
    p = reduce(p)
    if p.is_const():
        c = p.const_value()
        return int(c) if c.denominator == 1 and isinstance(v, int) and not isinstance(v, bool) else float(c)
    return SymNum(p, v)


def parts(x):
    """(polynomial, value at the generic point) of a SymNum or a plain real number"""
    if isinstance(x, SymNum):
        return x.p, x.v
    if isinstance(x, complex) or isinstance(x, SymC):
        raise Unknown("complex operand in a real exact computation")
    return _const(x), x


class SymNum:
    __slots__ = ("p", "v")

    def __init__(self, p, v):
        self.p, self.v = p, v

    @staticmethod
    def atom(name, value):
        return SymNum(Poly.atom(name), value)

    def _bin(self, o, f, g, swap=False):
        if isinstance(o, (SymC, complex)):
            a, b = (SymC.of(o), SymC(self, 0.0)) if swap else (SymC(self, 0.0), SymC.of(o))
            probe = f(Poly.atom("_p"), Poly.atom("_q"))
            if probe == Poly.atom("_p") + Poly.atom("_q"):
                return a + b
            if probe == Poly.atom("_p") - Poly.atom("_q"):
                return a - b
            return a * b
        p, v = parts(o)
        if swap:
            return mk(f(p, self.p), g(v, self.v))
        return mk(f(self.p, p), g(self.v, v))

    def __add__(self, o):
        return self._bin(o, lambda a, b: a + b, lambda a, b: a + b)

    def __radd__(self, o):
        return self._bin(o, lambda a, b: a + b, lambda a, b: a + b, True)

    def __sub__(self, o):
        return self._bin(o, lambda a, b: a - b, lambda a, b: a - b)

    def __rsub__(self, o):
        return self._bin(o, lambda a, b: a - b, lambda a, b: a - b, True)

    def __mul__(self, o):
        return self._bin(o, lambda a, b: a * b, lambda a, b: a * b)

    def __rmul__(self, o):
        return self._bin(o, lambda a, b: a * b, lambda a, b: a * b, True)

    def __neg__(self):
        return SymNum(-self.p, -self.v)

    def __pos__(self):
        return self

    def __abs__(self):
        return self if self.v >= 0 else -self          # exact on the branch of the generic point

    def __truediv__(self, o):
        if isinstance(o, (SymC, complex)):
            return NotImplemented
        p, v = parts(o)
        if not p.is_const():
            raise Unknown("division by a symbolic value")
        c = p.const_value()
        if c == 0:
            raise Unknown("division by zero")
        return mk(self.p.scale(1 / c), self.v / v)

    def __rtruediv__(self, o):
        raise Unknown("division by a symbolic value")

    def __pow__(self, n):
        if isinstance(n, float) and n == int(n):
            n = int(n)
        if not isinstance(n, int) or isinstance(n, bool) or not 0 <= n <= 8:
            raise Unknown("symbolic value to a non-integer power")
        out = 1
        for _ in range(n):
            out = out * self
        return out

    def __rpow__(self, o):
        raise Unknown("symbolic exponent")

    def __floordiv__(self, o):
        raise Unknown("floor division of a symbolic value")

    __rfloordiv__ = __mod__ = __rmod__ = __floordiv__

    # ---- decisions: at the generic point
    def __lt__(self, o):
        return self.v < parts(o)[1]

    def __le__(self, o):
        return self.v <= parts(o)[1]

    def __gt__(self, o):
        return self.v > parts(o)[1]

    def __ge__(self, o):
        return self.v >= parts(o)[1]

    def __eq__(self, o):
        if isinstance(o, (SymNum, int, float)):
            return self.v == parts(o)[1]
        return False

    def __ne__(self, o):
        return not self.__eq__(o)

    __hash__ = None

    def __bool__(self):
        return bool(self.v)

    def __float__(self):
        raise Unknown("a symbolic value is converted to a machine number")

    __int__ = __index__ = __complex__ = __float__

    @property
    def real(self):
        return self

    @property
    def imag(self):
        return 0.0

    def conjugate(self):
        return self

    def __repr__(self):
        return f"<{self.p}>"


class SymC:
    """complex number with symbolic real / imaginary parts"""
    __slots__ = ("re", "im")

    def __init__(self, re, im):
        self.re, self.im = re, im

    @staticmethod
    def of(x):
        if isinstance(x, SymC):
            return x
        if isinstance(x, complex):
            return SymC(x.real, x.imag)
        return SymC(x, 0.0)

    @staticmethod
    def make(re, im):
        if not isinstance(re, SymNum) and not isinstance(im, SymNum):
            return complex(re, im)
        return SymC(re, im)

    def __add__(self, o):
        o = SymC.of(o)
        return SymC.make(self.re + o.re, self.im + o.im)

    __radd__ = __add__

    def __sub__(self, o):
        o = SymC.of(o)
        return SymC.make(self.re - o.re, self.im - o.im)

    def __rsub__(self, o):
        return SymC.of(o) - self

    def __mul__(self, o):
        o = SymC.of(o)
        return SymC.make(self.re * o.re - self.im * o.im, self.re * o.im + self.im * o.re)

    __rmul__ = __mul__

    def __neg__(self):
        return SymC.make(-self.re, -self.im)

    def __truediv__(self, o):
        if isinstance(o, (int, float)) and not isinstance(o, bool):
            return SymC.make(self.re / o, self.im / o)
        raise Unknown("division by a complex / symbolic value")

    def __rtruediv__(self, o):
        raise Unknown("division by a symbolic complex value")

    def __pow__(self, n):
        if not isinstance(n, int) or isinstance(n, bool) or not 0 <= n <= 6:
            raise Unknown("symbolic complex value to a non-integer power")
        out = 1
        for _ in range(n):
            out = out * self
        return out

    @property
    def real(self):
        return self.re

    @property
    def imag(self):
        return self.im

    def conjugate(self):
        return SymC.make(self.re, -self.im)

    def __eq__(self, o):
        o = SymC.of(o) if isinstance(o, (SymC, complex, int, float, SymNum)) else None
        return o is not None and self.re == o.re and self.im == o.im

    def __ne__(self, o):
        return not self.__eq__(o)

    __hash__ = None

    def __bool__(self):
        return bool(self.re) or bool(self.im)

    def __abs__(self):
        raise Unknown("modulus of a symbolic complex value")

    def __complex__(self):
        raise Unknown("a symbolic value is converted to a machine number")

    __float__ = __int__ = __complex__


ANGLES = {}     # atom name of an angle -> (cos atom, sin atom): set through `angle`


def angle(name, value, cos_atom="C", sin_atom="S"):
    ANGLES[name] = (cos_atom, sin_atom)
    return SymNum.atom(name, value)


def _angle_of(x):
    """(name, sign) when x is +/- an angle atom"""
    if isinstance(x, SymNum):
        for name in ANGLES:
            if x.p == Poly.atom(name):
                return name, 1
            if x.p == -Poly.atom(name):
                return name, -1
    return None


def _half_angle_of(x):
    if isinstance(x, SymNum):
        for name in ANGLES:
            if x.p == Poly.atom(name).scale(Fraction(1, 2)):
                return name, 1
            if x.p == Poly.atom(name).scale(Fraction(-1, 2)):
                return name, -1
    return None


def _half_mode(name):
    """cos / sin of half the angle are wanted: everything is expressed with the atoms Ch, Sh of the half angle from now on"""
    c, s = ANGLES[name]
    ch, sh = Poly.atom(c + "h"), Poly.atom(s + "h")
    if c not in SUBST:
        SUBST[c] = ch * ch * 2 - Poly.const(1)
        SUBST[s] = sh * ch * 2
        RELATIONS[:] = [(v, r) for v, r in RELATIONS if v != s] + [(s + "h", Poly.const(1) - ch * ch)]
    return c + "h", s + "h"


def sym_math(name, args):
    """math / numpy / cmath functions of symbolic values that stay exact"""
    if name in ("cos", "sin") and len(args) == 1:
        a = _angle_of(args[0])
        if a is not None:
            c, s = ANGLES[a[0]]
            v = args[0].v
            if name == "cos":
                return mk(Poly.atom(c), math.cos(v))
            r = SymNum.atom(s, math.sin(a[1] * v))
            return mk(r.p, r.v) if a[1] > 0 else mk(-r.p, -r.v)
        h = _half_angle_of(args[0])
        if h is not None:
            c, s = _half_mode(h[0])
            v = args[0].v
            if name == "cos":
                return SymNum.atom(c, math.cos(v))
            r = SymNum.atom(s, math.sin(h[1] * v))
            return r if h[1] > 0 else -r
    if name in ("fabs", "abs", "absolute") and len(args) == 1 and isinstance(args[0], SymNum):
        return abs(args[0])
    if name in ("exp",) and len(args) == 1 and isinstance(args[0], SymC) and not isinstance(args[0].re, SymNum) and args[0].re == 0:
        a = _angle_of(args[0].im)
        if a is not None:
            return SymC(sym_math("cos", [args[0].im]), sym_math("sin", [args[0].im]))
    if name == "rect" and len(args) == 2 and not isinstance(args[0], (SymNum, SymC)):
        a = _angle_of(args[1])
        if a is not None:
            return SymC(args[0] * sym_math("cos", [args[1]]), args[0] * sym_math("sin", [args[1]]))
    if name in ("square",) and len(args) == 1:
        return args[0] * args[0]
    if name in ("negative",) and len(args) == 1:
        return -args[0]
    if name in ("positive", "real", "conj", "conjugate") and len(args) == 1 and isinstance(args[0], SymNum):
        return args[0]
    raise Unknown(f"{name} of a symbolic value")


def is_sym(x):
    return isinstance(x, (SymNum, SymC))
