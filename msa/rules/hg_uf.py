"""C20: obligations of UnionFind decided on symbolic paths (msa/rules/hg_symex.py): helpers of the class are executed in line, so the
obligations do not depend on how add / union / find are cut into methods, on statement order, or on local names."""
from __future__ import annotations
import ast
from .. import au, sym, order
from . import hg_symex as S
from . import hg_logic as L
from .hg_kd_build import Verdicts

UF = "utils.unionfind"
UFC = "UnionFind"
LISTS = ("_elts", "_par", "_siz")
COUNTERS = ("_next", "n_elts", "n_comps")
STATE = set(LISTS) | set(COUNTERS) | {"_indx"}
MUTATING = {"append", "extend", "insert", "pop", "remove", "clear", "sort", "reverse", "update", "add", "discard", "setdefault",
            "popitem", "appendleft", "popleft", "fill", "resize", "put", "__setitem__", "__delitem__"}


def field_of(e):
    """name of the attribute of self an lvalue / receiver is rooted at (self.f, self.f[i], self.f[i][j] ...)"""
    while isinstance(e, ast.Subscript):
        e = e.value
    if isinstance(e, ast.Attribute) and isinstance(e.value, ast.Name) and e.value.id == "self":
        return e.attr.split("@")[0]
    return None


def is_field(e, name):
    return isinstance(e, ast.Attribute) and isinstance(e.value, ast.Name) and e.value.id == "self" and e.attr.split("@")[0] == name


def writes(st):
    """[(field, kind, event)] - every write of the path into an attribute of self (stores, augmented stores, deletions, mutating calls)"""
    out = []
    for ev in st.events:
        if ev.kind in ("store", "aug", "del"):
            f = field_of(ev.target)
            if f is not None:
                k = ev.kind if isinstance(ev.target, ast.Attribute) else ev.kind + "-item"
                out.append((f, k, ev))
        elif ev.kind == "call" and ev.recv is not None and ev.tail in MUTATING:
            f = field_of(ev.recv)
            if f is not None:
                out.append((f, "call:" + ev.tail, ev))
    return out


def membership(t, pol, elem_text):
    """+1: (t, pol) states `elem in self._indx`, -1: states it is absent, 0: something else"""
    t, pol = au.strip_not(t, pol)
    if isinstance(t, ast.Compare) and len(t.ops) == 1 and isinstance(t.ops[0], (ast.In, ast.NotIn)) and au.src(t.left) == elem_text:
        c = t.comparators[0]
        if is_field(c, "_indx") or is_field(c, "_elts") or (isinstance(c, ast.Call) and au.call_tail(c) == "keys" and is_field(c.func.value, "_indx")):
            return 1 if (isinstance(t.ops[0], ast.In) == pol) else -1
    return 0


def num(t):
    return int(t[2:]) if t and t[0] == "$" and t[2:].isdigit() else -1


def index_poly(ex, st, e, base):
    """polynomial of an index expression in terms of N = number of elements before the registrations of the path"""
    def atom(n):
        if is_field(n, "_next") or is_field(n, "n_elts"):
            return base
        t = S.tok_name(n)
        if t and ex.kind(n) == "call":
            c = ex.origin(n)
            if au.call_tail(c) == "len" and len(c.args) == 1 and field_of(c.args[0]) in LISTS and isinstance(c.args[0], ast.Attribute):
                f = field_of(c.args[0])
                k = sum(1 for ev in st.events if ev.kind == "call" and ev.tail == "append" and ev.recv is not None and is_field(ev.recv, f)
                        and num(ev.tok) < num(t))
                return base + k
        return None
    try:
        return sym.to_poly(e, atom_of=atom, opaque=False)
    except sym.NotPoly:
        return None


def check_registrations(V, ex, st, base, who, key="", rebind_ok=False):
    """every element registered on the path gets one slot in each table, at the index it really gets, under a fresh non-membership test;
    returns the number of registrations (None when the book-keeping is not recognised)"""
    ws = writes(st)
    idx_stores = [ev for f, k, ev in ws if f == "_indx" and k == "store-item" and isinstance(ev.target, ast.Subscript) and is_field(ev.target.value, "_indx")]
    odd = [(f, k) for f, k, ev in ws if (f in LISTS and k != "call:append") or (f == "_indx" and k != "store-item")
           or (f in LISTS and k == "call:append" and not isinstance(ev.recv, ast.Attribute))]
    # find's path compression / union's links are item stores into _par and _siz: not registrations
    odd = [(f, k) for f, k in odd if not (f in ("_par", "_siz") and k in ("store-item", "aug-item")) and not (rebind_ok and k == "store")]
    if odd:
        V.und(key + "reg", "C20-U1", f"{who} updates the element tables in a way that is not recognised ({sorted(set(odd))[0][0]}: {sorted(set(odd))[0][1]})",
              "expected one append to _elts / _par / _siz and one item store into _indx per new element")
        return None
    apps = {f: [ev for g, k, ev in ws if g == f and k == "call:append"] for f in LISTS}
    R = len(idx_stores)
    if R == 0 and not any(apps.values()):
        return 0
    for f in LISTS:
        if len(apps[f]) != R:
            V.fail(key + "lockstep", "C20-U1", f"{who} registers {R} element(s) in _indx but appends {len(apps[f])} entr(y/ies) to {f} on the same path",
                   "the element list, its index map and the forest must advance together: a table left behind makes find / len / n_comps "
                   "describe different partitions")
            return None
    for j, s_ in enumerate(idx_stores):
        elem = s_.target.slice
        et = au.src(elem)
        # values
        e_app, p_app, z_app = apps["_elts"][j], apps["_par"][j], apps["_siz"][j]
        probs = []
        if len(e_app.args) != 1 or au.src(e_app.args[0]) != et:
            probs.append("the element appended to _elts is not the one stored in _indx")
        want = base + j
        for what, val, ev in (("_indx[element]", s_.value, s_), ("the parent appended to _par", p_app.args[0] if len(p_app.args) == 1 else None, p_app)):
            pl = index_poly(ex, st, val, base) if val is not None else None
            if pl is None:
                V.und(key + "values", "C20-U1", f"the index {who} records in {what.split('[')[0].split(' ')[-1]} is not recognised")
            elif not (pl == want):
                probs.append(f"{what} is `{pl!r}` (N = number of elements before) instead of the index the element really gets (`{want!r}`)")
        if len(z_app.args) != 1 or au.const(z_app.args[0]) != 1:
            probs.append("the size appended to _siz is not 1")
        if probs:
            V.fail(key + "values", "C20-U1", f"{who} does not record a new element as its own root of size 1 at the index it really gets",
                   "; ".join(probs) + ": _indx must point at the element's slot in _elts/_par/_siz and a new element is a singleton component")
        else:
            V.ok(key + "values", "C20-U1", "new element is its own root of size 1 at the fresh index")
        # fresh non-membership guard
        pos = st.events.index(s_)
        fresh = False
        stale = False
        for i, (t, pol, _, kind) in enumerate(st.conds):
            for t2, pol2, _k in S.flat_conds(_one(st, i)):
                if membership(t2, pol2, et) == -1:
                    later = [ev for ev in st.events[:pos] if ev.nconds > i and ev.kind == "store" and field_of(ev.target) == "_indx"]
                    if later:
                        stale = True
                    else:
                        fresh = True
        if fresh:
            V.ok(key + "guard", "C20-U1", "registration guarded by non-membership")
        elif stale:
            V.fail(key + "guard", "C20-U1", f"{who} registers an element whose absence was tested before another element was registered",
                   "when the two are the same element (union(x, x) of an absent x) it gets a second slot: n_elts / n_comps over-count and the listings show it twice")
        elif who == "__init__":
            V.und(key + "guard", "C20-U1", "__init__ registers its initial elements without testing membership",
                  "whether the elements it is given can repeat is not decided")
        else:
            V.fail(key + "guard", "C20-U1", f"{who} registers an element without testing that it is not yet a member",
                   "adding an element twice must be a no-op: otherwise it gets a second index, n_elts / n_comps over-count and the old node is orphaned")
    return R


def _one(st, i):
    x = S.State()
    x.conds = [st.conds[i]]
    return x


def kept_counters(repo):
    """the counters the class really keeps: an attribute that no method of the class ever assigns does not exist (e.g. `_next` dropped in
    favour of len(self._elts))"""
    cls = repo.cls(UF, UFC)
    out = set()
    for n in ast.walk(cls):
        if isinstance(n, ast.Attribute) and isinstance(n.ctx, ast.Store) and au.is_self_attr(n) and n.attr in COUNTERS:
            out.add(n.attr)
    return out


def counter_delta(ex, st, c):
    """change of self.<c> along the path as an integer (None when not a constant change)"""
    final = st.heap.get("self." + c)
    if final is None:
        return 0
    try:
        p = sym.to_poly(final, atom_of=lambda n: "C" if is_field(n, c) else None, opaque=False)
    except sym.NotPoly:
        return None
    d = p - sym.Poly.atom("C")
    if d.is_const():
        return int(d.const_value())
    if p.is_const():
        return ("const", int(p.const_value()))
    return None


# =========================================================================================== add / __init__ / __contains__
def u1_add(ctx):
    repo = ctx.repo
    fn = repo.func(UF, UFC + ".add")
    site = ctx.site(UF, fn)
    ps = au.params(fn, skip_self=True)
    V = Verdicts(ctx, site)
    ex = S.Exec(repo, UF, UFC, fields_by_name=True)
    try:
        states = [s for s in ex.run(fn, args=S.default_args(fn, set(ps[:1]))) if s.end != "raise"]
    except (S.GiveUp, RecursionError):
        ctx.undecided("C20-U1", site, "add is too branchy for path enumeration")
        return
    if not ps:
        ctx.undecided("C20-U1", site, "add(element) signature not recognised")
        return
    n_reg = 0
    for st in states:
        R = check_registrations(V, ex, st, sym.Poly.atom("N"), "add")
        if R is None or R == 0:
            continue
        n_reg += 1
        if R != 1:
            V.fail("one", "C20-U1", f"add registers {R} elements on one path", "one call adds one element")
        for c in COUNTERS:
            if c not in kept_counters(repo):
                continue
            d = counter_delta(ex, st, c)
            if d is None or isinstance(d, tuple):
                V.und("counters", "C20-U1", f"how add changes {c} is not recognised")
            elif d != R:
                V.fail("counters", "C20-U1", f"add does not advance {c} by exactly one for the element it registers (changes it by {d})",
                       "one new element is one new singleton component: _next, n_elts and n_comps advance together")
            else:
                V.ok("counters", "C20-U1", "three counters += 1")
    if n_reg == 0:
        V.und("reg", "C20-U1", "no path of add registers an element")
    V.flush()
    # __contains__ is the index map
    if repo.has_func(UF, UFC + ".__contains__"):
        cfn = repo.func(UF, UFC + ".__contains__")
        cps = au.params(cfn, skip_self=True)
        csite = ctx.site(UF, cfn)
        try:
            cs = [s for s in S.Exec(repo, UF, UFC, fields_by_name=True).run(cfn) if s.end != "raise"]
        except (S.GiveUp, RecursionError):
            cs = []
        if len(cs) == 1 and cs[0].ret is not None and cps and membership(cs[0].ret, True, cps[0]) == 1:
            ctx.ok("C20-U1", csite, "__contains__ is membership in the element tables")
        elif len(cs) == 1 and cs[0].ret is not None and cps and membership(cs[0].ret, True, cps[0]) == -1:
            ctx.fail("C20-U1", csite, "__contains__ answers True for absent elements", "membership drives the idempotence of add and the auto-insertion of union")
        else:
            ctx.undecided("C20-U1", csite, "__contains__ is not `x in self._indx`", "membership drives the idempotence of add and the auto-insertion of union")


def u1_init(ctx):
    repo = ctx.repo
    fn = repo.func(UF, UFC + ".__init__")
    site = ctx.site(UF, fn)
    ps = au.params(fn, skip_self=True)
    V = Verdicts(ctx, site)
    ex = S.Exec(repo, UF, UFC, fields_by_name=True)
    try:
        states = [s for s in ex.run(fn, args=S.default_args(fn, set(ps[:1]))) if s.end != "raise"]
    except (S.GiveUp, RecursionError):
        ctx.undecided("C20-U1", site, "__init__ is too branchy for path enumeration")
        return
    registered = False
    for st in states:
        # initial value of every table: the first plain store to the attribute
        first = {}
        for ev in st.events:
            if ev.kind == "store" and isinstance(ev.target, ast.Attribute) and field_of(ev.target) in STATE and field_of(ev.target) not in first:
                first[field_of(ev.target)] = ev.value
        bulk = []
        for f in sorted(STATE):
            v = first.get(f)
            if v is None and f in COUNTERS and f not in kept_counters(repo):
                continue
            if v is None:
                V.und("empty", "C20-U1", f"__init__ does not initialise {f} with a plain assignment")
                continue
            o = ex.expand(v)
            if f in COUNTERS:
                okv = au.const(o) == 0
            elif f == "_indx":
                okv = (isinstance(o, ast.Dict) and not o.keys) or au.src(o) == "dict()"
            else:
                okv = (isinstance(o, ast.List) and not o.elts) or au.src(o) == "list()"
            names = {n.id for n in ast.walk(o) if isinstance(n, ast.Name)}
            if not okv and ps and (set(ps) & names or any(isinstance(n, ast.Call) for n in ast.walk(o))):
                bulk.append(f)
                continue
            if okv:
                V.ok("empty", "C20-U1", "empty tables and zero counters")
            else:
                V.fail("empty", "C20-U1", f"__init__ does not start with an empty table / a zero counter in {f}",
                       f"initial value `{au.src(o)[:60]}`: the lock-step invariant of the tables must hold initially")
        if bulk:
            V.fail("bulk", "C20-U1", f"__init__ fills {', '.join(bulk)} in bulk from its argument instead of registering the elements one by one through add",
                   "add ignores an element that is already present, a bulk copy does not: a container with repeated elements creates one slot per occurrence, "
                   "_indx keeps the last one, and n_elts / n_comps / len() count occurrences")
            continue
        R = check_registrations(V, ex, st, sym.Poly.const(0), "__init__", key="init-", rebind_ok=True)
        if R:
            registered = True
            adds = [ev for ev in st.events if ev.kind == "inline" and ev.name.endswith(".add")]
            for ev in adds:
                a = ev.args[-1]
                t = S.tok_name(a)
                if t and ex.kind(a) == "elem" and ps and au.src(ex.toks[t][1]) in (ps[0],):
                    V.ok("elements", "C20-U1", "initial elements registered through add")
    if ps and not registered:
        V.und("elements", "C20-U1", "no path of __init__ registers the initial elements")
    V.flush()


# =========================================================================================== union
def u1_union(ctx):
    repo = ctx.repo
    fn = repo.func(UF, UFC + ".union")
    site = ctx.site(UF, fn)
    ps = au.params(fn, skip_self=True)
    if len(ps) < 2:
        ctx.undecided("C20-U1", site, "union(x, y) signature not recognised")
        return
    V = Verdicts(ctx, site)
    ex = S.Exec(repo, UF, UFC, opaque={"find"}, fields_by_name=True)
    try:
        states = [s for s in ex.run(fn, args=S.default_args(fn, set(ps[:2]))) if s.end != "raise"]
    except (S.GiveUp, RecursionError):
        ctx.undecided("C20-U1", site, "union is too branchy for path enumeration")
        return
    weighted = any(field_of(n) == "_siz" for st in states for c in st.conds for n in ast.walk(c[0]) if isinstance(n, ast.Subscript))
    n_links = 0
    for st in states:
        R = check_registrations(V, ex, st, sym.Poly.atom("N"), "union", key="u-")
        finds = [ev for ev in st.events if ev.kind == "call" and ev.tail == "find" and isinstance(ev.recv, ast.Name) and ev.recv.id == "self"
                 and len(ev.args) == 1]
        root_of = {ev.tok: au.src(ev.args[0]) for ev in finds}
        # ---- both arguments are members before their roots are looked up
        for ev in finds:
            a = au.src(ev.args[0])
            pos = st.events.index(ev)
            added = any(e2.kind == "inline" and e2.name.endswith(".add") and au.src(e2.args[-1]) == a for e2 in st.events[:pos]) or \
                any(e2.kind == "store" and field_of(e2.target) == "_indx" and isinstance(e2.target, ast.Subscript) and au.src(e2.target.slice) == a
                    for e2 in st.events[:pos]) or \
                any(membership(t, pol, a) == 1 for t, pol, k in S.flat_conds(st, upto=ev.nconds))
            if added:
                V.ok("members", "C20-U1", "arguments are members before find")
            else:
                V.fail("members", "C20-U1", "union looks up the root of an argument that it has not made a member (self.add) first",
                       "union of an absent element must insert it (documented), otherwise find raises ValueError")
        if {root_of.get(t) for t in root_of} and not set(ps[:2]) <= set(root_of.values()) and finds:
            pass
        # ---- links
        links = [ev for f, k, ev in writes(st) if f == "_par" and k in ("store-item", "aug-item")]
        for ev in links:
            n_links += 1
            i, v = ev.target.slice, ev.value
            ti, tv = S.tok_name(i), S.tok_name(v)
            def not_a_root(e_):
                """recognised as something that is not a find() result: an index / parent lookup, or an argument of union itself"""
                return (isinstance(e_, ast.Subscript) and field_of(e_) in ("_indx", "_par")) or (isinstance(e_, ast.Name) and e_.id in ps)
            if (ev.kind != "store" or ti not in root_of or tv not in root_of) and not (not_a_root(i) or not_a_root(v) or ev.kind != "store"):
                V.und("link", "C20-U1", "the ends of the link union writes into _par are not recognised as results of self.find")
                continue
            if ev.kind != "store" or ti not in root_of or tv not in root_of:
                V.fail("link", "C20-U1", "union writes into _par something that is not a link from the root of one argument to the root of the other",
                       f"`_par[{ex.text(i)[:50]}] = {ex.text(v)[:50]}` (roots come from self.find): linking anything but two roots detaches part of a "
                       "component or creates a cycle")
                continue
            if root_of[ti] == root_of[tv]:
                V.fail("link", "C20-U1", "union links two roots obtained from the same argument", "the components of the two arguments are never merged")
                continue
            V.ok("link", "C20-U1", "link between the two find() roots")
            # distinct roots
            dist = False

            def root_arg(e_):
                """the argument whose root `e_` is (a result of self.find, possibly obtained by an earlier call: roots do not move
                as long as no link is written)"""
                t_ = S.tok_name(e_)
                if t_ in root_of:
                    return root_of[t_]
                o_ = ex.origin(e_) if t_ and ex.kind(e_) == "call" else None
                if o_ is not None and find_call(o_):
                    return au.src(o_.args[0])
                return None
            for t, pol, k in S.flat_conds(st, upto=ev.nconds):
                if isinstance(t, ast.Compare) and len(t.ops) == 1 and isinstance(t.ops[0], (ast.Eq, ast.NotEq, ast.Is, ast.IsNot)) \
                        and (isinstance(t.ops[0], (ast.NotEq, ast.IsNot)) == pol):
                    sides_ = {root_arg(t.left), root_arg(t.comparators[0])}
                    if None not in sides_ and sides_ == {root_of[ti], root_of[tv]}:
                        dist = True
            if dist:
                V.ok("distinct", "C20-U1", "link only between distinct roots")
            else:
                V.fail("distinct", "C20-U1", "union links the two roots without having tested that they differ",
                       "a self-union (or a union inside one component) must change nothing: otherwise the root is re-parented / its size doubled and n_comps is decremented")
            # size of the new root
            if weighted:
                okz = False
                for f, k, e2 in writes(st):
                    if f == "_siz" and k in ("aug-item", "store-item") and au.src(e2.target) == f"self._siz[{tv}]":
                        try:
                            pl = sym.to_poly(e2.value, atom_of=lambda n: au.src(n).replace("@", "_") if isinstance(n, ast.Subscript) else None, opaque=False)
                            okz = pl == sym.Poly.atom(f"self._siz[{tv}]") + sym.Poly.atom(f"self._siz[{ti}]")
                        except sym.NotPoly:
                            okz = False
                if okz:
                    V.ok("size", "C20-U1", "size of the new root updated with the link")
                else:
                    V.fail("size", "C20-U1", "the size of the new root is not increased by the size of the attached root on a linking path",
                           "sizes are compared to choose the new root; a size that is not updated with the link is wrong for the next union")
        # ---- n_comps
        if R is not None:
            d = counter_delta(ex, st, "n_comps")
            if d is None or isinstance(d, tuple):
                V.und("ncomps", "C20-U1", "how union changes n_comps is not recognised")
            elif d != R - len(links) or len(links) > 1:
                V.fail("ncomps", "C20-U1", "n_comps is not decremented by one on exactly the paths of union that write a root link",
                       f"a path with {R} new element(s) and {len(links)} link(s) changes n_comps by {d}: the component count must drop iff two components are merged")
            else:
                V.ok("ncomps", "C20-U1", "decrement iff link")
    if n_links == 0:
        foreign = [ev.tail for st in states for ev in st.events if ev.kind == "call" and isinstance(ev.recv, ast.Name) and ev.recv.id == "self"
                   and ev.tail != "find" and not (ev.tail in ex.methods and ex.pure(ex.methods[ev.tail]))]
        if foreign:
            V.und("link", "C20-U1", f"union delegates to self.{foreign[0]}(...), which could not be followed")
        else:
            V.fail("link", "C20-U1", "union never writes a root link into _par", "two components are never merged")
    V.flush()


# =========================================================================================== find
def par_read(e):
    """`e` is an entry read from _par (any version): self._par[...]"""
    return isinstance(e, ast.Subscript) and is_field(e.value, "_par")


def par_version(e):
    a = e.value.attr
    return int(a.split("@")[1]) if "@" in a else 0


def untouched(st, stores, v, final, rt):
    """the entry _par[rt] read at version v is still the same at version `final`: every store in between goes to an index known to differ from rt"""
    for ev in stores[v:final]:
        it = au.src(ev.target.slice)
        ok = False
        for t, pol, k in S.flat_conds(st):
            if isinstance(t, ast.Compare) and len(t.ops) == 1 and isinstance(t.ops[0], (ast.Eq, ast.NotEq)) and (isinstance(t.ops[0], ast.NotEq) == pol) \
                    and {au.src(t.left), au.src(t.comparators[0])} == {it, rt}:
                ok = True
        if not ok:
            return False
    return True


def u2_find(ctx):
    repo = ctx.repo
    fn = repo.func(UF, UFC + ".find")
    site = ctx.site(UF, fn)
    V = Verdicts(ctx, site)
    ex = S.Exec(repo, UF, UFC, fields_by_name=True)
    try:
        states = [s for s in ex.run(fn, args=S.default_args(fn, set(au.params(fn, skip_self=True)[:1]))) if s.end != "raise"]
    except (S.GiveUp, RecursionError):
        ctx.undecided("C20-U2", site, "find is too branchy for path enumeration")
        return
    recursive = [c for c in au.calls(fn) if isinstance(c.func, ast.Attribute) and au.is_self_attr(c.func, fn.name)]
    if recursive:
        ctx.undecided("C20-U2", site, "recursive UnionFind.find: the climb to the fixed point of _par is not decided")
        return
    ret0 = None
    for st in states:
        ws = writes(st)
        other = sorted({f"self.{f} ({k})" for f, k, ev in ws if not (f == "_par" and k == "store-item") and f in STATE})
        inl = sorted({ev.name for ev in st.events if ev.kind == "inline" and ev.name.split(".")[-1] in ("add", "union", "__setitem__")})
        if other or inl:
            V.fail("writes", "C20-U2", f"find writes {', '.join(other + [n + '(...)' for n in inl])}",
                   "find may only compress paths inside _par: queries never change the partition (nor the element tables)")
        else:
            V.ok("writes", "C20-U2", "find writes _par only")
        stores = [ev for f, k, ev in ws if f == "_par" and k == "store-item"]
        n_before = 0
        for ev in stores:
            i, v = ev.target.slice, ev.value
            it = au.src(i)
            # value: an entry of _par (an ancestor)
            if par_read(v):
                V.ok("value", "C20-U2", "compression re-attaches to an entry read from _par")
            else:
                V.fail("value", "C20-U2", "find stores into _par a value that was not read from _par",
                       f"`_par[...] = {ex.text(v)[:60]}`: a node may only be re-attached to one of its ancestors, and a root must never be re-parented by a query")
            # guard: i is not a root when the store happens
            guarded = False
            for t, pol, k in S.flat_conds(st, upto=ev.nconds):
                if isinstance(t, ast.Compare) and len(t.ops) == 1 and isinstance(t.ops[0], (ast.Eq, ast.NotEq)) and (isinstance(t.ops[0], ast.NotEq) == pol):
                    for a, b in ((t.left, t.comparators[0]), (t.comparators[0], t.left)):
                        if au.src(a) == it and par_read(b) and au.src(b.slice) == it and par_version(b) == n_before:
                            guarded = True
            if guarded:
                V.ok("guard", "C20-U2", "only a non-root is re-attached")
            else:
                V.und("guard", "C20-U2", "a store of find into _par is not dominated by the test that the node differs from its parent",
                      "a root must never be re-parented by a query")
            n_before += 1
        # the value returned is a fixed point of _par in the final state
        if st.end != "return" or st.ret is None:
            V.und("root", "C20-U2", "find has a path that returns nothing")
            continue
        r = st.ret
        rt = au.src(r)
        final = len(stores)
        exact = st.heap.get(f"self._par[{rt}]")
        established, contradicted = False, False
        if exact is not None and au.src(exact) == rt:
            established = True
        for t, pol, k in S.flat_conds(st):
            if isinstance(t, ast.Compare) and len(t.ops) == 1 and isinstance(t.ops[0], (ast.Eq, ast.NotEq)):
                for a, b in ((t.left, t.comparators[0]), (t.comparators[0], t.left)):
                    if au.src(a) != rt:
                        continue
                    same_read = par_read(b) and au.src(b.slice) == rt and (par_version(b) == final or untouched(st, stores, par_version(b), final, rt))
                    same_val = exact is not None and au.src(b) == au.src(exact)
                    if same_read or same_val:
                        if isinstance(t.ops[0], ast.Eq) == pol:
                            established = True
                        else:
                            contradicted = True
        if established:
            V.ok("root", "C20-U2", "find returns a fixed point of _par")
        elif contradicted:
            V.fail("root", "C20-U2", "find returns a node known to differ from its parent",
                   "find must return the root: the loop may only stop at a fixed point of _par")
        else:
            V.und("root", "C20-U2", "it is not established that the value returned by find is a fixed point of _par")
        # the climb: an iteration of the loop moves the returned node to an entry of _par
        looped = any(c[3] == "loop" and c[1] and isinstance(au.parent(c[2]), ast.While) for c in st.conds)
        if not looped:
            ret0 = rt
        elif ret0 is not None:
            if rt == ret0:
                V.fail("climb", "C20-U2", "an iteration of the loop of find does not move to a parent: the node returned is the one the loop started from",
                       "the loop must climb to a parent at every turn, otherwise it never reaches the root (or never ends)")
            elif par_read(r):
                V.ok("climb", "C20-U2", "find climbs to an entry of _par")
            else:
                V.und("climb", "C20-U2", "the node find moves to is not recognised as an entry of _par")
    V.flush()


# =========================================================================================== queries write nothing
QUERIES = ("connected", "component", "roots", "components", "component_mapping", "__len__", "__contains__", "__getitem__", "__repr__", "__str__",
           "__iter__")
MUTATORS = ("__init__", "add", "union", "__setitem__")


def u2_queries(ctx):
    repo = ctx.repo
    cls = repo.cls(UF, UFC)
    n = 0
    cache_fields = {}
    for st_ in cls.body:
        if isinstance(st_, ast.FunctionDef) and st_.name == "find":
            try:
                for s in S.Exec(repo, UF, UFC, fields_by_name=True).run(st_, args=S.default_args(st_, set(au.params(st_, skip_self=True)[:1]))):
                    for f, k, ev in writes(s):
                        if f not in STATE:
                            cache_fields.setdefault(f, []).append(st_)
            except (S.GiveUp, RecursionError):
                pass
        if not isinstance(st_, ast.FunctionDef) or st_.name in MUTATORS or st_.name == "find":
            continue
        public = not st_.name.startswith("_") or (st_.name.startswith("__") and st_.name.endswith("__"))
        if not public:
            continue                # private helpers are analysed where they are called (executed in line)
        site = ctx.site(UF, st_)
        ex = S.Exec(repo, UF, UFC, opaque={"find"}, fields_by_name=True)
        try:
            n_core = {"connected": 2, "component": 1, "__getitem__": 1, "__contains__": 1}.get(st_.name, 0)
            states = [s for s in ex.run(st_, args=S.default_args(st_, set(au.params(st_, skip_self=True)[:n_core])))]
        except (S.GiveUp, RecursionError):
            ctx.undecided("C20-U2", site, f"{st_.name} is too branchy for path enumeration")
            continue
        n += 1
        bad, caches, muts = set(), set(), set()
        for s in states:
            for f, k, ev in writes(s):
                if f in STATE:
                    bad.add(f"self.{f} ({k})")
                else:
                    caches.add(f)
            for ev in s.events:
                if ev.kind == "inline" and ev.name.split(".")[-1] in ("add", "union", "__setitem__"):
                    muts.add(ev.name + "(...)")
                if ev.kind in ("store", "aug") and isinstance(ev.target, ast.Subscript) and isinstance(ev.target.value, ast.Name) and ev.target.value.id == "self":
                    muts.add("self[...] = ...")
        known = st_.name in QUERIES
        what = sorted(bad | muts)
        if what and known:
            ctx.fail("C20-U2", site, f"query method {st_.name} writes {', '.join(what)}", "queries never change the partition (nor the element tables)")
        elif what:
            ctx.undecided("C20-U2", site, f"method {st_.name} writes {', '.join(what)}", "it is neither a known query nor a known mutator of UnionFind")
        else:
            ctx.ok("C20-U2", site, f"{st_.name} writes no table")
        for f in sorted(caches):
            cache_fields.setdefault(f, []).append(st_)
    if n < 5:
        ctx.undecided("C20-U2", ctx.site(UF, UFC), f"only {n} public query methods of UnionFind could be analysed")
    # a query may keep a cache only if every change of the partition invalidates it
    if cache_fields:
        changing = {}
        for name in ("add", "union"):
            fn = repo.func(UF, f"{UFC}.{name}")
            ex = S.Exec(repo, UF, UFC, opaque={"find"}, fields_by_name=True)
            try:
                for s in ex.run(fn, args=S.default_args(fn, set(au.params(fn, skip_self=True)[:2]))):
                    ws = writes(s)
                    if any(f in ("_par", "_indx") for f, k, ev in ws):
                        changing.setdefault(name, []).append({f for f, k, ev in ws})
            except (S.GiveUp, RecursionError):
                changing[name] = None
        for f, users in sorted(cache_fields.items()):
            site = ctx.site(UF, users[0])
            if any(v is None for v in changing.values()):
                ctx.undecided("C20-U2", site, f"query method {users[0].name} keeps state in self.{f}; its invalidation by add / union could not be followed")
                continue
            stale = sorted(nm for nm, paths in changing.items() if any(f not in p for p in paths))
            ctx.check(not stale, "C20-U2", site,
                      f"query method {users[0].name} keeps state in self.{f}, which {' / '.join(stale)} do(es) not reset when the partition changes",
                      "a cached view that survives a change of the partition makes the views disagree with find (stale roots / components)",
                      note=f"cache self.{f} reset by every change of the partition")


# =========================================================================================== views
def find_call(e, var=None):
    """`e` is self.find(<var>) (a call in an expression, or a token origin)"""
    return isinstance(e, ast.Call) and isinstance(e.func, ast.Attribute) and au.is_self_attr(e.func, "find") and len(e.args) == 1 \
        and (var is None or au.src(e.args[0]) == var)


def elts_iter(e):
    """iterable over every element: self._elts / self._indx / self._indx.keys() / list(...) of those"""
    if isinstance(e, ast.Call) and au.call_tail(e) in ("list", "tuple", "iter") and len(e.args) == 1:
        return elts_iter(e.args[0])
    if isinstance(e, ast.Call) and au.call_tail(e) == "keys" and not e.args and isinstance(e.func, ast.Attribute):
        return is_field(e.func.value, "_indx")
    return is_field(e, "_elts") or is_field(e, "_indx")


def v1_views(ctx, routed=()):
    repo = ctx.repo
    for name in ("component", "roots", "components", "component_mapping"):
        if name in routed or not repo.has_func(UF, f"{UFC}.{name}"):
            continue
        fn = repo.func(UF, f"{UFC}.{name}")
        site = ctx.site(UF, fn)
        ex = S.Exec(repo, UF, UFC, opaque={"find"}, fields_by_name=True)
        try:
            from .hg_kd_query import default_only
            ps = au.params(fn, skip_self=True)
            core = set(ps[:1]) if name == "component" else set()
            states = [s for s in ex.run(fn, args=S.default_args(fn, core)) if s.end != "raise" and default_only(fn, s, core)]
        except (S.GiveUp, RecursionError):
            ctx.undecided("C20-V1", site, f"{name} is too branchy for path enumeration")
            continue
        V = Verdicts(ctx, site)
        for st in states:
            globals()["view_" + name](V, ex, st, fn)
        main_key = {"component": "component", "roots": "roots", "components": "components", "component_mapping": "mapping"}[name]
        if main_key not in V.res:
            V.und(main_key, "C20-V1", f"{name} does not enumerate the elements in a way that is recognised",
                  "the view must describe the same partition as find: every element belongs to exactly one reported component")
        V.flush()


def unpair(ex, d):
    """a comprehension over a generator helper of the class that yields (element, self.find(element)) pairs for every element is rewritten
    as the comprehension over the elements themselves (the root variable replaced by self.find(element))"""
    g = d.generators[0]
    c = g.iter
    if not (isinstance(c, ast.Call) and isinstance(c.func, ast.Attribute) and isinstance(c.func.value, ast.Name) and c.func.value.id == "self"
            and not c.args and not c.keywords and c.func.attr in ex.methods):
        return d
    m = ex.methods[c.func.attr]
    body = [s_ for s_ in m.body if not (isinstance(s_, ast.Expr) and isinstance(s_.value, ast.Constant))]
    if len(body) != 1 or not isinstance(body[0], ast.For) or not isinstance(body[0].target, ast.Name) or len(body[0].body) != 1:
        return d
    loop = body[0]
    y = loop.body[0]
    if not (isinstance(y, ast.Expr) and isinstance(y.value, ast.Yield) and isinstance(y.value.value, ast.Tuple) and len(y.value.value.elts) == 2):
        return d
    var = loop.target.id
    kinds = []
    for x in y.value.value.elts:
        if isinstance(x, ast.Name) and x.id == var:
            kinds.append("elem")
        elif find_call(x, var):
            kinds.append("root")
        else:
            return d
    if sorted(kinds) != ["elem", "root"] or not (isinstance(g.target, ast.Tuple) and len(g.target.elts) == 2
                                                 and all(isinstance(t, ast.Name) for t in g.target.elts)):
        return d
    names = dict(zip(kinds, [t.id for t in g.target.elts]))
    ev = names["elem"] if names["elem"] != "_" else "_e"
    mapping = {names["root"]: ast.Call(func=ast.Attribute(value=ast.Name(id="self", ctx=ast.Load()), attr="find", ctx=ast.Load()),
                                       args=[ast.Name(id=ev, ctx=ast.Load())], keywords=[])}
    if names["elem"] == "_":
        mapping["_"] = ast.Name(id=ev, ctx=ast.Load())
    new = type(d)()
    if isinstance(d, ast.DictComp):
        new.key, new.value = sym.subst(d.key, mapping), sym.subst(d.value, mapping)
    else:
        new.elt = sym.subst(d.elt, mapping)
    new.generators = [ast.comprehension(target=ast.Name(id=ev, ctx=ast.Store()), iter=sym.clone(loop.iter),
                                        ifs=[sym.subst(t, mapping) for t in g.ifs], is_async=0)]
    return new


def comp_of(ex, e):
    d = _comp_of(ex, e)
    if d is not None and isinstance(d, (ast.GeneratorExp, ast.SetComp, ast.ListComp)) and len(d.generators) == 1:
        try:
            return unpair(ex, d)
        except Exception:
            return d
    return d


def _comp_of(ex, e):
    """the comprehension behind set(<genexp>) / a set / list comprehension token -> (comprehension node, wrapper)"""
    for _ in range(3):
        if ex.kind(e) == "call":
            c = ex.origin(e)
            if au.call_tail(c) in ("set", "frozenset", "list", "tuple", "sorted") and len(c.args) == 1:
                e = c.args[0]
                continue
        break
    if ex.kind(e) == "display":
        d = ex.origin(e)
        if isinstance(d, (ast.GeneratorExp, ast.SetComp, ast.ListComp)) and len(d.generators) == 1:
            return d
    if ex.kind(e) == "call":
        c = ex.origin(e)
        # filter(lambda e: <test>, iterable)  ==  (e for e in iterable if <test>) ;  map(f, iterable) == (f(e) for e in iterable)
        if au.call_tail(c) == "filter" and len(c.args) == 2 and isinstance(c.args[0], ast.Lambda) and len(c.args[0].args.args) == 1:
            v = c.args[0].args.args[0].arg
            return ast.GeneratorExp(elt=ast.Name(id=v, ctx=ast.Load()),
                                    generators=[ast.comprehension(target=ast.Name(id=v, ctx=ast.Store()), iter=c.args[1], ifs=[c.args[0].body], is_async=0)])
        if au.call_tail(c) == "map" and len(c.args) == 2 and au.src(c.args[0]) == "self.find":
            return ast.GeneratorExp(elt=ast.Call(func=c.args[0], args=[ast.Name(id="_e", ctx=ast.Load())], keywords=[]),
                                    generators=[ast.comprehension(target=ast.Name(id="_e", ctx=ast.Store()), iter=c.args[1], ifs=[], is_async=0)])
    return None


def loop_elems(ex, st):
    """source texts of `the current element` in generic loops over every element of the structure: the loop token for `for e in self._elts`,
    `<token>[1]` for `for i, e in enumerate(self._elts)`, `<token>[0]` for `for e, p in zip(self._elts, ...)`"""
    out = []
    for t, (k, it) in ex.toks.items():
        if k != "elem" or not any(au.src(c[0]) == au.src(it) and c[1] and c[3] == "loop" for c in st.conds):
            continue
        if elts_iter(it):
            out.append(t)
            continue
        o = ex.origin(it) if ex.kind(it) == "call" else it
        if is_index_range(ex, o):
            out.append(f"self._elts[{t}]")
        elif isinstance(o, ast.Call) and au.call_tail(o) == "enumerate" and len(o.args) == 1 and elts_iter(o.args[0]):
            out.append(f"{t}[1]")
        elif isinstance(o, ast.Call) and au.call_tail(o) == "zip" and o.args and elts_iter(o.args[0]):
            out.append(f"{t}[0]")
    return out


def is_index_range(ex, o):
    """range(<number of elements>): an iteration over the slots of the tables"""
    if not (isinstance(o, ast.Call) and au.call_tail(o) == "range" and len(o.args) == 1 and not o.keywords):
        return False
    a = o.args[0]
    if is_field(a, "_next") or is_field(a, "n_elts"):
        return True
    c = ex.origin(a) if ex.kind(a) == "call" else a
    return isinstance(c, ast.Call) and au.call_tail(c) == "len" and len(c.args) == 1 and (field_of(c.args[0]) in LISTS or au.src(c.args[0]) == "self")


def loops_zero(ex, st):
    """the path takes zero iterations of a loop over the elements"""
    return any(c[3] == "loop" and not c[1] and elts_iter(c[0]) for c in st.conds)


def loops_over_elements(ex, st):
    for c in st.conds:
        if c[3] == "loop" and c[1]:
            if elts_iter(c[0]):
                return True
            o = ex.origin(c[0]) if ex.kind(c[0]) == "call" else c[0]
            if isinstance(o, ast.Call) and au.call_tail(o) in ("enumerate", "zip") and o.args and elts_iter(o.args[0]):
                return True
            if is_index_range(ex, o):
                return True
    return False


def view_component(V, ex, st, fn):
    ps = au.params(fn, skip_self=True)
    x = ps[0] if ps else "x"
    ret = st.ret
    d = comp_of(ex, ret) if ret is not None else None

    def is_root_of_x(e):
        o = ex.origin(e) if ex.kind(e) == "call" else e
        return find_call(o, x)
    if d is not None:
        g = d.generators[0]
        if not elts_iter(g.iter):
            it = g.iter
            if isinstance(it, ast.Subscript) and isinstance(it.slice, ast.Slice) and elts_iter(it.value):
                V.fail("component", "C20-V1", "component(x) examines a slice of the elements instead of all of them",
                       "every element belongs to exactly one component: the view must consider each of them")
            elif any(is_field(n, "_par") for n in ast.walk(it)):
                V.fail("component", "C20-V1", "component(x) classifies the elements by their parent pointer (self._par) instead of by self.find(element)",
                       "only the root of its tree identifies the component of an element: members that do not hang directly under the root are left out")
            else:
                V.und("component", "C20-V1", "component(x) does not enumerate self._elts")
            return
        var = g.target.id if isinstance(g.target, ast.Name) else None
        if var is None or au.src(d.elt) != var or len(g.ifs) != 1 or not isinstance(g.ifs[0], ast.Compare) or len(g.ifs[0].ops) != 1:
            V.und("component", "C20-V1", "the filter of component(x) is not a single comparison on the collected element")
            return
        c = g.ifs[0]
        sides = [c.left, c.comparators[0]]
        mine = [s_ for s_ in sides if find_call(s_, var)]
        other = [s_ for s_ in sides if not find_call(s_, var)]
        if len(mine) != 1 or not is_root_of_x(other[0]):
            V.und("component", "C20-V1", "component(x) does not compare self.find(element) with self.find(x)")
        elif isinstance(c.ops[0], ast.Eq):
            V.ok("component", "C20-V1", "component filters on find(e) == find(x)")
        elif isinstance(c.ops[0], ast.NotEq):
            V.fail("component", "C20-V1", "component(x) keeps the elements whose root differs from the root of x",
                   "the component of x is the set of elements sharing x's root")
        else:
            V.und("component", "C20-V1", "comparison of component(x) not recognised")
        return
    # explicit loop: for e in self._elts: if self.find(e) == root: out.add(e)
    elems = loop_elems(ex, st)
    if not elems:
        if not any(c[3] == "loop" for c in st.conds):
            V.und("component", "C20-V1", "component(x) is neither a comprehension nor a loop over self._elts")
        return
    E = elems[0]
    adds = [ev for ev in st.events if ev.kind == "call" and ev.tail in ("add", "append") and len(ev.args) == 1 and au.src(ev.args[0]) == E]
    tests = []
    for t, pol, k in S.flat_conds(st):
        if isinstance(t, ast.Compare) and len(t.ops) == 1 and isinstance(t.ops[0], (ast.Eq, ast.NotEq)):
            sides = [t.left, t.comparators[0]]
            fe = [s_ for s_ in sides if ex.kind(s_) == "call" and find_call(ex.origin(s_), E)]
            fx = [s_ for s_ in sides if is_root_of_x(s_)]
            if fe and fx and fe[0] is not fx[0]:
                tests.append(isinstance(t.ops[0], ast.Eq) == pol)
    if not tests:
        V.und("component", "C20-V1", "component(x) does not compare self.find(element) with self.find(x)")
    elif bool(adds) == tests[0]:
        V.ok("component", "C20-V1", "element kept iff find(e) == find(x)")
    else:
        V.fail("component", "C20-V1", "component(x) keeps the elements whose root differs from the root of x (or drops those sharing it)",
               "the component of x is the set of elements sharing x's root")


def view_roots(V, ex, st, fn):
    d = comp_of(ex, st.ret) if st.ret is not None else None
    if d is None and st.ret is not None and ex.kind(st.ret) == "call":
        # set(map(self.find, self._elts))
        c = ex.origin(st.ret)
        if au.call_tail(c) in ("set", "frozenset") and len(c.args) == 1 and ex.kind(c.args[0]) == "call":
            m = ex.origin(c.args[0])
            if au.call_tail(m) == "map" and len(m.args) == 2 and au.src(m.args[0]) == "self.find" and elts_iter(m.args[1]):
                V.ok("roots", "C20-V1", "roots is set(map(find, elements))")
                return
    if d is None and st.ret is not None and not climbs(st) and parent_derived(ex, st, st.ret) == "par" \
            and not any(ev.kind == "call" and ev.tail == "find" for ev in st.events):
        V.fail("roots", "C20-V1", "roots() collects values computed from parent pointers (self._par) by a fixed number of look-ups instead of self.find(element)",
               "a parent (or a parent's provisional root) is not the root unless the forest is flat and visited in the right order: "
               "the view reports non-roots and disagrees with find / n_comps")
        return
    if d is None and st.ret is not None and ex.kind(st.ret) in ("display", "call"):
        # explicit loop: out = set(); for e in self._elts: out.add(self.find(e)); return out
        t = st.ret.id
        elems = loop_elems(ex, st)
        adds = [ev for ev in st.events if ev.kind == "call" and ev.tail in ("add", "append") and ev.recv is not None and au.src(ev.recv) == t and len(ev.args) == 1]
        if elems and adds:
            loop_i = next((i for i, c in enumerate(st.conds) if c[3] == "loop" and c[1]), 0)
            for ev in adds:
                o = ex.origin(ev.args[0]) if ex.kind(ev.args[0]) == "call" else None
                guards = [c for c in st.conds[loop_i + 1:ev.nconds] if c[3] in ("if", "ifexp") and S.controls(c, ev.node)]
                if o is not None and find_call(o) and au.src(o.args[0]) in elems and not guards:
                    V.ok("roots", "C20-V1", "roots collects find(e) for every element")
                elif isinstance(ev.args[0], ast.Subscript) and is_field(ev.args[0].value, "_par"):
                    V.fail("roots", "C20-V1", "roots() collects parent pointers instead of self.find(element)", "a parent is not a root unless the tree is flat")
                else:
                    V.und("roots", "C20-V1", "roots() does not collect self.find(element) for every element")
            return
        if not adds and not any(c[3] == "loop" and c[1] for c in st.conds) and loops_zero(ex, st):
            V.soft("roots", "C20-V1", "roots() does not return a collection built by enumerating the elements")
            return
    if d is None:
        V.und("roots", "C20-V1", "roots() does not return a collection built by enumerating the elements")
        return
    g = d.generators[0]
    var = g.target.id if isinstance(g.target, ast.Name) else None
    if not elts_iter(g.iter):
        if isinstance(g.iter, ast.Subscript) and isinstance(g.iter.slice, ast.Slice) and elts_iter(g.iter.value):
            V.fail("roots", "C20-V1", "roots() examines a slice of the elements instead of all of them", "every component has a root among the find() of its elements")
        else:
            V.und("roots", "C20-V1", "roots() does not enumerate self._elts")
    elif g.ifs:
        V.und("roots", "C20-V1", "roots() filters the elements")
    elif var and find_call(d.elt, var):
        V.ok("roots", "C20-V1", "roots is {find(e) for e in elements}")
    elif isinstance(d.elt, ast.Subscript) and is_field(d.elt.value, "_par"):
        V.fail("roots", "C20-V1", "roots() collects parent pointers instead of self.find(element)", "a parent is not a root unless the tree is flat")
    else:
        V.und("roots", "C20-V1", "roots() does not collect self.find(element)")


def parent_derived(ex, st, e, depth=0, seen=None):
    """is the value `e` computed from entries of self._par by a fixed number of look-ups (no call of find, no loop that climbs until a
    node is its own parent, no helper that could not be followed) ?  Returns 'par' / 'unknown' / None (not derived from _par at all).
    Follows tokens to what they stand for: elements of iterables, arguments of calls, values stored into containers built on the path."""
    seen = seen if seen is not None else set()
    if depth > 8:
        return "unknown"
    verdict = None

    def merge(v):
        nonlocal verdict
        if v == "unknown" or verdict == "unknown":
            verdict = "unknown"
        elif v == "par":
            verdict = "par"
    for n in ast.walk(e):
        if isinstance(n, ast.Attribute) and is_field(n, "_par"):
            merge("par")
        t = S.tok_name(n)
        if not t or t in seen:
            continue
        seen.add(t)
        k, o = ex.toks.get(t, (None, None))
        if k == "elem":
            merge(parent_derived(ex, st, o, depth + 1, seen))
        elif k == "call":
            if isinstance(o.func, ast.Attribute) and isinstance(o.func.value, ast.Name) and o.func.value.id == "self":
                merge("unknown")            # find(...) or a helper that was not executed in line
            else:
                for a in list(o.args) + [kw.value for kw in o.keywords]:
                    merge(parent_derived(ex, st, a, depth + 1, seen))
        elif k == "display":
            merge(parent_derived(ex, st, o, depth + 1, seen)) if isinstance(o, ast.AST) else None
        elif k in ("carried", "unknown", "default"):
            merge("unknown")
        # what was stored into / appended to the object the token stands for
        for ev in st.events:
            if ev.kind in ("store", "aug") and isinstance(ev.target, ast.Subscript) and au.src(ev.target.value) == t and ev.value is not None:
                merge(parent_derived(ex, st, ev.value, depth + 1, seen))
            elif ev.kind == "call" and ev.recv is not None and au.src(ev.recv) == t and ev.tail in ("append", "add", "extend", "update", "insert", "setdefault"):
                for a in ev.args:
                    merge(parent_derived(ex, st, a, depth + 1, seen))
    return verdict


def climbs(st):
    """the path runs a `while` loop (in the view or a helper executed in line): it may climb to a fixed point of _par"""
    return any(c[3] in ("loop", "loop-exit") and isinstance(au.parent(c[2]), ast.While) for c in st.conds)


def _filing(V, ex, st, key, what):
    """elements are put, unconditionally, in the group selected by self.find(element)"""
    elems = loop_elems(ex, st)
    if not elems:
        V.und(key, "C20-V1", f"the loop of {what} over the elements is not recognised")
        return None
    adds = [ev for ev in st.events if ev.kind == "call" and ev.tail in ("add", "append") and len(ev.args) == 1 and au.src(ev.args[0]) in elems]
    # other ways of putting the element in a group:  groups[key] = {e} / [e]   and   table[key](e) with table = {root: group.append ...}
    for ev in st.events:
        if ev.kind == "store" and isinstance(ev.target, ast.Subscript) and ex.kind(ev.value) == "display" \
                and isinstance(ex.origin(ev.value), (ast.Set, ast.List)) and any(au.src(x) in elems for x in ex.origin(ev.value).elts):
            fake = S.Event("call", ev.node, st, call=None, recv=ev.target, tail="add",
                           args=[x for x in ex.origin(ev.value).elts if au.src(x) in elems][:1])
            fake.nconds = ev.nconds
            adds.append(fake)
        elif ev.kind == "call" and isinstance(ev.call.func, ast.Subscript) and len(ev.args) == 1 and au.src(ev.args[0]) in elems \
                and ex.kind(ev.call.func.value) == "display" and isinstance(ex.origin(ev.call.func.value), ast.DictComp) \
                and isinstance(ex.origin(ev.call.func.value).value, ast.Attribute) and ex.origin(ev.call.func.value).value.attr in ("append", "add"):
            fake = S.Event("call", ev.node, st, call=None, recv=ev.call.func, tail="append", args=list(ev.args))
            fake.nconds = ev.nconds
            adds.append(fake)
    slots = [e_[len("self._elts["):-1] for e_ in elems if e_.startswith("self._elts[")]
    if not adds and any(ev.kind == "call" and ev.tail in ("add", "append") and len(ev.args) == 1 and au.src(ev.args[0]) in slots for ev in st.events):
        V.fail(key, "C20-V1", f"{what} files the slot index of an element instead of the element itself",
               "the views list elements: indices coincide with them only when the elements are 0..n-1")
        return None
    if not adds:
        # a path on which the element of the iteration is not filed: conditional filing ?
        loop_i = next((i for i, c in enumerate(st.conds) if c[3] == "loop" and c[1]), None)
        guards = [c for i, c in enumerate(st.conds) if c[3] in ("if", "ifexp") and loop_i is not None and i > loop_i
                  and "in" not in au.canon_test(c[0], c[1]).split()
                  and any(find_call(n_) for n_ in ast.walk(ex.expand(c[0], depth=4)))]
        if guards:
            V.fail(key, "C20-V1", f"{what} files an element only under a condition on its group",
                   "an element that is skipped makes the listing disagree with connected(): every element belongs to exactly one reported component")
        else:
            V.soft(key, "C20-V1", f"how {what} files the elements into groups is not recognised")
        return None
    for ev in adds:
        E = au.src(ev.args[0])
        loop_i = next((i for i, c in enumerate(st.conds) if c[3] == "loop" and c[1]), 0)
        guards = [c for c in st.conds[loop_i + 1:ev.nconds] if c[3] in ("if", "ifexp") and S.controls(c, ev.node)]
        recv1 = ex.expand(ev.recv, depth=1)
        recv = ex.expand(ev.recv, depth=3)

        def is_find_of(c_):
            return find_call(c_) and (au.src(c_.args[0]) == E or ex.text(c_.args[0]) == ex.text(ev.args[0]))
        keyed = [c_ for c_ in ast.walk(recv1) if is_find_of(c_)] or [c_ for c_ in ast.walk(recv) if is_find_of(c_)]
        if not keyed and S.tok_name(ev.recv):
            # the group was created on this path: `if r not in groups: groups[r] = []` - it is the value stored under find(element)
            for hk, hv in st.heap.items():
                if au.src(hv) == ev.recv.id and any(t_ in hk for t_, (k_, c_) in ex.toks.items() if k_ == "call" and is_find_of(c_)):
                    keyed = [hk]
        by_index = [n for n in ast.walk(recv) if isinstance(n, ast.Subscript) and is_field(n.value, "_indx")]
        by_parent = [n for n in ast.walk(recv) if isinstance(n, ast.Subscript) and is_field(n.value, "_par")]
        if not keyed and not by_parent and not climbs(st) and parent_derived(ex, st, ev.recv) == "par":
            by_parent = [ev.recv]
        if keyed:
            # (a path of the iteration on which the element is NOT filed is judged where it occurs: here it is filed, under find(element))
            V.ok(key, "C20-V1", "element filed under find(element)")
        elif by_parent:
            V.fail(key, "C20-V1", f"{what} groups the elements by their parent pointer (self._par) instead of by self.find(element)",
                   "only the root of its tree identifies the component of an element: path halving does not flatten the trees, so members of "
                   "one component are listed in different groups")
        elif by_index:
            V.fail(key, "C20-V1", f"{what} groups the elements by their index (self._indx) instead of by self.find(element)",
                   "elements of one component would be listed in different groups")
        else:
            V.und(key, "C20-V1", f"the group {what} files an element into is not selected by self.find(element)")
    return True


def view_components(V, ex, st, fn):
    if not loops_over_elements(ex, st):
        return
    _filing(V, ex, st, "components", "components()")
    # a root -> slot table built from enumerate(roots): key must be the root, value the position
    for t, (k, d) in ex.toks.items():
        g = kx = vx = None
        if k == "display" and isinstance(d, ast.DictComp) and len(d.generators) == 1:
            g, kx, vx = d.generators[0], d.key, d.value
        elif k == "call" and au.call_tail(d) == "dict" and len(d.args) == 1 and ex.kind(d.args[0]) == "display":
            dd = ex.origin(d.args[0])
            if isinstance(dd, (ast.GeneratorExp, ast.ListComp)) and len(dd.generators) == 1 and isinstance(dd.elt, ast.Tuple) and len(dd.elt.elts) == 2:
                g, (kx, vx) = dd.generators[0], dd.elt.elts
        if g is None:
            continue
        if isinstance(g.iter, ast.Call) and au.call_tail(g.iter) == "enumerate" and isinstance(g.target, ast.Tuple) and len(g.target.elts) == 2:
            i_, r_ = (au.src(x) for x in g.target.elts)
            if au.src(kx) == r_ and au.src(vx) == i_:
                V.ok("slots", "C20-V1", "root -> slot table orientation")
            elif au.src(kx) == i_ and au.src(vx) == r_:
                V.fail("slots", "C20-V1", "the root -> slot table of components maps positions to roots instead of roots to positions",
                       "elements are filed under table[find(e)]")


def view_component_mapping(V, ex, st, fn):
    if not loops_over_elements(ex, st):
        return
    _filing(V, ex, st, "mapping", "component_mapping()")
    # every member of a group is mapped to (a copy of) that group
    for ev in st.events:
        if ev.kind != "call" or ev.tail != "update" or len(ev.args) != 1:
            continue
        a = ev.args[0]
        o = ex.origin(a) if S.tok_name(a) else a
        C = None
        if isinstance(o, ast.DictComp) and len(o.generators) == 1 and isinstance(o.generators[0].target, ast.Name):
            g = o.generators[0]
            C = au.src(g.iter)
            key_ok = au.src(o.key) == g.target.id and not g.ifs
            val = o.value
        elif isinstance(o, ast.Call) and au.call_name(o) == "dict.fromkeys" and len(o.args) == 2:
            C = au.src(o.args[0])
            key_ok, val = True, o.args[1]
        else:
            V.und("members", "C20-V1", "how component_mapping maps the members of a group is not recognised")
            continue
        vs = au.src(val)
        val_ok = vs == C or vs in (f"set({C})", f"frozenset({C})", f"{C}.copy()", f"list({C})", f"tuple({C})")
        if key_ok and val_ok:
            V.ok("members", "C20-V1", "every member mapped to its own component")
        elif not key_ok:
            V.fail("members", "C20-V1", "component_mapping does not map every member of a component", "expected: elt -> component containing elt, for every elt")
        else:
            V.und("members", "C20-V1", "the value component_mapping associates with a member is not (a copy of) its component")


# =========================================================================================== bounds
def o1_bounds(ctx):
    repo = ctx.repo
    for name in ("__getitem__", "__setitem__"):
        if not repo.has_func(UF, f"{UFC}.{name}"):
            continue
        fn = repo.func(UF, f"{UFC}.{name}")
        site = ctx.site(UF, fn)
        ps = au.params(fn, skip_self=True)
        if not ps:
            ctx.undecided("C20-O1", site, f"signature of {name} not recognised")
            continue
        idx = ps[0]
        ex = S.Exec(repo, UF, UFC, fields_by_name=True)
        try:
            states = ex.run(fn, args=S.default_args(fn, set(ps[:2])))
        except (S.GiveUp, RecursionError):
            ctx.undecided("C20-O1", site, f"{name} is too branchy")
            continue
        forms = {idx: "index", "self._next": "_next", "self.n_elts": "_next"}

        def s(node, forms=forms):
            t = au.src(node)
            if t in forms:
                return forms[t]
            o = ex.origin(node) if ex.kind(node) == "call" else None
            if isinstance(o, ast.Call) and au.call_tail(o) == "len" and len(o.args) == 1 and field_of(o.args[0]) in LISTS:
                return "_next"
            if isinstance(node, ast.BinOp):
                raise order.Unsupported(t)
            return t
        V = Verdicts(ctx, site)
        n_raise = 0
        for st in states:
            conds = [(c[0], c[1]) for c in st.conds if c[3] in ("if", "ifexp", "assert")]
            from . import c1120_util as U
            code = U.conj(conds)
            raises = st.end == "raise"
            n_raise += raises
            try:
                syms = order.Pred(s).collect(code).symbols
                if not syms <= {"index", "_next"}:
                    V.und("bounds", "C20-O1", f"the bounds test of {name} involves something else than the index and the number of elements")
                    continue
                r = U.relate(code, "0 <= index < _next", s, extra_symbols=("index", "_next"))
            except order.Unsupported:
                V.und("bounds", "C20-O1", f"bounds test of {name} is not a comparison of the index with 0 and the number of elements")
                continue
            if raises:
                exc = ex.origin(st.ret) if st.ret is not None and ex.kind(st.ret) == "call" else None
                # a raising path must not contain a valid index
                wit = None
                for env in order.envs({"index", "_next"}, order.Pred(s).collect(code).consts | {0}):
                    pc = order.Pred(s)
                    if pc.eval(code, env) and 0 <= env["index"] < env["_next"]:
                        wit = env
                        break
                if wit:
                    V.fail("bounds", "C20-O1", f"{name} raises for a valid index", f"e.g. {wit}")
                else:
                    V.ok("bounds", "C20-O1", "raises only out of range")
            else:
                acc = any(isinstance(n, ast.Subscript) and is_field(n.value, "_elts") for n in ast.walk(st.ret)) if (st.ret is not None and name == "__getitem__") else \
                    any(ev.kind == "store" and isinstance(ev.target, ast.Subscript) and is_field(ev.target.value, "_elts") for ev in st.events)
                if not acc:
                    V.und("access", "C20-O1", f"{name} has a path that does not access self._elts[{idx}]")
                    continue
                if r["code_not_spec"] is None:
                    V.ok("bounds", "C20-O1", "accesses only in range")
                else:
                    V.fail("bounds", "C20-O1", f"{name} accesses self._elts for an index outside 0 <= index < number of elements",
                           f"e.g. {r['code_not_spec']}: an invalid index must raise IndexError (negative indices would silently address the list from its end)")
        V.flush()
