"""Function *views* for the C07 / C08 rules (owned by the C07/C08 checker).

A rule that matches the shape of a function body breaks as soon as a maintainer extracts a helper, caches a bound method in a
local, folds two copies of a block into a loop over a literal tuple ...  Instead of teaching every rule every spelling, the
rules of C07 / C08 look at a *view* of the function: a structural copy on which the following semantics-preserving (for a
read-only analysis) rewrites were applied

  V1  alias propagation      `direct_face = mesh.connectivity.direct_face` / `faces = mesh.faces`  ->  uses replaced by the chain
  V2  helper inlining        calls to private helpers of the same module (`_name`), to nested functions and to methods of
                             `self` are replaced by the helper's *return expression* (symbolic execution of straight-line /
                             if-return code, validation `raise`s dropped) or, when the helper has side effects but a single final
                             return, by its renamed body
  V3  generator inlining     `for t in _gen(..): B`  ->  the loop nest of the generator with `yield v` replaced by `t = v; B`
  V4  chained assignment     `a = b = c = 0.5`  ->  three assignments
  V5  literal unrolling      `for u, v in ((A, B), (B, A)): B`  ->  B[u:=A, v:=B]; B[u:=B, v:=A]   (also through zip / enumerate /
                             reversed / small pure generators of the package such as utils.cyclic_pairs applied to literals);
                             only when the body has no `break`; `if c: continue` is restructured into `if not c: rest` first

plus `return_expr(fn)`: the value returned by a function as one expression over its parameters (if-chains become conditional
expressions, loops are opaque and "havoc" the names they assign).

Nothing of the repository is executed; everything works on `ast` copies (`sym.clone`)."""
from __future__ import annotations
import ast
from .. import au, sym

MAX_UNROLL = 8
HARMLESS = {"print", "debug", "info", "warning", "warn", "log", "check_argument", "error"}


class NotExpr(Exception):
    pass


RAISE = ast.Name(id="<raise>", ctx=ast.Load())


def _const(v):
    return ast.Constant(value=v)


def _name(n):
    return ast.Name(id=n, ctx=ast.Load())


def link(node):
    for n in ast.walk(node):
        for c in ast.iter_child_nodes(n):
            c._parent = n
    return node


def bound_inside(expr):
    """names bound by comprehensions / lambdas inside an expression"""
    out = set()
    for n in ast.walk(expr):
        if isinstance(n, ast.comprehension):
            out.update(au.assigned_names(n.target))
        elif isinstance(n, ast.Lambda):
            out.update(a.arg for a in n.args.args)
        elif isinstance(n, ast.NamedExpr):
            out.add(n.target.id)
    return out


def subst_env(expr, env):
    if expr is None:
        return None
    bound = bound_inside(expr)
    m = {k: v for k, v in env.items() if k not in bound}
    used = au.names(expr) & set(m)
    if not used:
        return sym.clone(expr)
    return sym.subst(expr, {k: m[k] for k in used})


def _contains(body, kinds):
    for st in au.stmts(body):
        if isinstance(st, kinds):
            return True
    return False


def _has_yield(fn):
    return any(isinstance(n, (ast.Yield, ast.YieldFrom)) for n in au.walk(fn))


def _assigned_in(body):
    out = set()
    for st in au.stmts(body):
        for t in au.assign_targets(st):
            out.update(_rebound(t))
        if isinstance(st, (ast.For, ast.AsyncFor)):
            out.update(au.assigned_names(st.target))
        if isinstance(st, (ast.With, ast.AsyncWith)):
            for it in st.items:
                if it.optional_vars is not None:
                    out.update(au.assigned_names(it.optional_vars))
        for n in au.walk(st) if not isinstance(st, (ast.For, ast.While, ast.If, ast.With, ast.Try)) else []:
            if isinstance(n, ast.NamedExpr):
                out.add(n.target.id)
    return out


def _rebound(target):
    if isinstance(target, ast.Name):
        return [target.id]
    if isinstance(target, (ast.Tuple, ast.List)):
        out = []
        for e in target.elts:
            out += _rebound(e.value if isinstance(e, ast.Starred) else e)
        return out
    return []


def _mutated_base(target):
    """name of the object mutated by a store to target (x[i] = .., x.a = ..)"""
    t = target
    while isinstance(t, (ast.Subscript, ast.Attribute)):
        t = t.value
    return t.id if isinstance(t, ast.Name) else None


# ------------------------------------------------------------------------------------------------ symbolic return expression
class SymExec:
    """strict=True: pure helpers only (any side effect / loop raises NotExpr); strict=False: loops and stores are opaque"""

    def __init__(self, strict=True, limit=64):
        self.strict, self.limit, self.n = strict, limit, 0

    def havoc(self, env, names):
        for n in names:
            env[n] = _name(n)

    def run(self, stmts, env):
        """expression returned by executing `stmts` (falling off the end returns None); RAISE when every path raises"""
        self.n += 1
        if self.n > 4000:
            raise NotExpr("too large")
        stmts = list(stmts)
        while stmts:
            st = stmts.pop(0)
            if isinstance(st, ast.Return):
                return subst_env(st.value, env) if st.value is not None else _const(None)
            if isinstance(st, ast.Raise):
                return RAISE
            if isinstance(st, (ast.Pass, ast.Import, ast.ImportFrom, ast.Assert, ast.FunctionDef, ast.AsyncFunctionDef, ast.ClassDef)):
                if isinstance(st, (ast.FunctionDef, ast.ClassDef)):
                    env.pop(st.name, None)
                continue
            if isinstance(st, ast.Expr):
                v = st.value
                if isinstance(v, ast.Constant):
                    continue
                if isinstance(v, ast.Call):
                    if au.call_tail(v) in HARMLESS:
                        continue
                    if self.strict:
                        raise NotExpr("call statement")
                    outs = [k.value for k in v.keywords if k.arg == "out"]
                    if len(outs) == 1 and isinstance(outs[0], ast.Name):
                        # numpy in-place form  np.sqrt(x, out=x)  ==  x = np.sqrt(x)
                        c = ast.Call(func=v.func, args=list(v.args), keywords=[k for k in v.keywords if k.arg != "out"])
                        env[outs[0].id] = subst_env(c, env)
                        continue
                    if isinstance(v.func, ast.Attribute):
                        b = _mutated_base(v.func)
                        if b:
                            self.havoc(env, [b])
                    for k in v.keywords:       # np.sqrt(x, out=x)
                        if k.arg == "out" and isinstance(k.value, ast.Name):
                            self.havoc(env, [k.value.id])
                    continue
                if self.strict:
                    raise NotExpr("expression statement")
                continue
            if isinstance(st, (ast.Assign, ast.AnnAssign)):
                if isinstance(st, ast.AnnAssign):
                    if st.value is None:
                        continue
                    targets, value = [st.target], st.value
                else:
                    targets, value = st.targets, st.value
                pairs = list(sym.split_assign(st)) if isinstance(st, ast.Assign) and len(targets) == 1 else []
                if pairs and isinstance(targets[0], (ast.Tuple, ast.List)):
                    vals = [(n, subst_env(v, env)) for n, v in pairs]
                    for n, v in vals:
                        env[n] = v
                    continue
                v = subst_env(value, env)
                for t in targets:
                    self.assign(t, v, env)
                continue
            if isinstance(st, ast.AugAssign):
                if isinstance(st.target, ast.Name):
                    cur = env.get(st.target.id, _name(st.target.id))
                    env[st.target.id] = ast.BinOp(left=sym.clone(cur), op=st.op, right=subst_env(st.value, env))
                else:
                    if self.strict:
                        raise NotExpr("store")
                    b = _mutated_base(st.target)
                    if b:
                        self.havoc(env, [b])
                continue
            if isinstance(st, ast.If):
                test = subst_env(st.test, env)
                exits = _contains([st], (ast.Return, ast.Raise))
                if _contains([st], (ast.Continue, ast.Break)):
                    raise NotExpr("continue / break")
                if not exits:
                    e1, e2 = dict(env), dict(env)
                    r1 = self.run(st.body + [ast.Pass()], e1)
                    r2 = self.run(st.orelse + [ast.Pass()], e2)
                    for k in set(e1) | set(e2):
                        a, b = e1.get(k, _name(k)), e2.get(k, _name(k))
                        env[k] = a if au.same(a, b) else ast.IfExp(test=sym.clone(test), body=a, orelse=b)
                    continue
                a = self.run(st.body + stmts, dict(env))
                b = self.run(st.orelse + stmts, dict(env))
                if a is RAISE:
                    return b
                if b is RAISE:
                    return a
                if au.same(a, b):
                    return a
                return ast.IfExp(test=test, body=a, orelse=b)
            if isinstance(st, (ast.For, ast.AsyncFor, ast.While)):
                if self.strict or _contains(st.body + st.orelse, (ast.Return,)):
                    raise NotExpr("loop")
                self.havoc(env, _assigned_in([st]) | self._mutated(st.body))
                continue
            if isinstance(st, (ast.With, ast.AsyncWith)):
                if self.strict:
                    raise NotExpr("with")
                for it in st.items:
                    if it.optional_vars is not None:
                        self.havoc(env, au.assigned_names(it.optional_vars))
                stmts = list(st.body) + stmts
                continue
            if isinstance(st, ast.Try):
                if self.strict or _contains([st], (ast.Return,)):
                    raise NotExpr("try")
                self.havoc(env, _assigned_in([st]) | self._mutated([st]))
                continue
            raise NotExpr(type(st).__name__)
        return _const(None)

    def _mutated(self, body):
        out = set()
        for s in au.stmts(body):
            for t in au.assign_targets(s):
                if not isinstance(t, (ast.Name, ast.Tuple, ast.List)):
                    b = _mutated_base(t)
                    if b:
                        out.add(b)
                elif isinstance(t, (ast.Tuple, ast.List)):
                    for e in t.elts:
                        if isinstance(e, (ast.Subscript, ast.Attribute)):
                            b = _mutated_base(e)
                            if b:
                                out.add(b)
            if isinstance(s, ast.Expr) and isinstance(s.value, ast.Call) and isinstance(s.value.func, ast.Attribute):
                b = _mutated_base(s.value.func)
                if b and au.call_tail(s.value) in ("append", "extend", "add", "clear", "update", "fill", "insert", "pop", "remove", "sort"):
                    out.add(b)
        return out

    def assign(self, t, v, env):
        if isinstance(t, ast.Name):
            env[t.id] = v
        elif isinstance(t, (ast.Tuple, ast.List)) and isinstance(v, ast.IfExp) and not any(isinstance(x, ast.Starred) for x in t.elts) and all(
                isinstance(x, (ast.Tuple, ast.List)) and len(x.elts) == len(t.elts) for x in (v.body, v.orelse)):
            for i, a in enumerate(t.elts):        # a, b = (x, y) if c else (u, w): component-wise
                self.assign(a, ast.IfExp(test=v.test, body=v.body.elts[i], orelse=v.orelse.elts[i]), env)
        elif isinstance(t, (ast.Tuple, ast.List)):
            if isinstance(v, (ast.Tuple, ast.List)) and len(v.elts) == len(t.elts) and not any(isinstance(x, ast.Starred) for x in t.elts):
                for a, b in zip(t.elts, v.elts):
                    self.assign(a, b, env)
            else:
                for i, a in enumerate(t.elts):
                    if isinstance(a, ast.Starred):
                        self.havoc(env, _rebound(a))
                    else:
                        self.assign(a, ast.Subscript(value=sym.clone(v), slice=_const(i), ctx=ast.Load()), env)
        else:
            if self.strict:
                raise NotExpr("store")
            b = _mutated_base(t)
            if b:
                self.havoc(env, [b])


def return_expr(fn, env=None, strict=False):
    """value returned by `fn` as one expression over its parameters (None when it cannot be expressed)"""
    try:
        e = SymExec(strict=strict).run(fn.body, dict(env or {}))
    except (NotExpr, RecursionError):
        return None
    return None if e is RAISE else e


# ------------------------------------------------------------------------------------------------ helper resolution / binding
def bind_call(helper, call, recv=None):
    """param name -> argument expression (defaults filled in); None when the call cannot be bound statically"""
    a = helper.args
    if a.vararg is not None or a.kwarg is not None:
        return None
    if any(isinstance(x, ast.Starred) for x in call.args) or any(k.arg is None for k in call.keywords):
        return None
    pos = [p.arg for p in a.posonlyargs + a.args]
    out = {}
    if recv is not None:
        if not pos:
            return None
        out[pos[0]] = recv
        pos = pos[1:]
    if len(call.args) > len(pos):
        return None
    for p, v in zip(pos, call.args):
        out[p] = v
    names = pos + [p.arg for p in a.kwonlyargs]
    for k in call.keywords:
        if k.arg not in names or k.arg in out:
            return None
        out[k.arg] = k.value
    allpos = [p.arg for p in a.posonlyargs + a.args]
    for p, d in zip(allpos[len(allpos) - len(a.defaults):], a.defaults):
        out.setdefault(p, d)
    for p, d in zip(a.kwonlyargs, a.kw_defaults):
        if d is not None:
            out.setdefault(p.arg, d)
    need = set(allpos) | {p.arg for p in a.kwonlyargs}
    if set(out) != need:
        return None
    return out


class Resolver:
    """which calls of a function may be looked through"""

    def __init__(self, repo, modname, fn, cls=None, inline_public=False, stop=()):
        self.repo, self.fn, self.inline_public, self.stop = repo, fn, inline_public, set(stop)
        self.mod = repo.module(modname)
        self.cls = cls            # (Module, ClassDef) of the receiver for self.method() calls
        self.nested = {st.name: st for st in fn.body if isinstance(st, ast.FunctionDef)}
        q = getattr(fn, "_qualname", fn.name)
        if cls is None and "." in q and "<locals>" not in q:
            cq = q.rsplit(".", 1)[0]
            if cq in self.mod.classes:
                self.cls = (self.mod, self.mod.classes[cq])

    def resolve(self, call):
        """-> (helper FunctionDef, receiver expr | None) or None"""
        f = call.func
        if isinstance(f, ast.Name):
            if f.id in self.nested:
                return self.nested[f.id], None
            if f.id == self.fn.name or f.id in self.stop:
                return None
            r = self.repo.resolve_func(self.mod.name, f.id)
            if r and r[1] is not None and r[0] is self.mod and "." not in getattr(r[1], "_qualname", r[1].name):
                if f.id.startswith("_") or self.inline_public:
                    return r[1], None
            # a helper shared through a private module of the same package (`from ._alloc import allocate_attribute`)
            if r and r[1] is not None and r[0] is not self.mod and "." not in getattr(r[1], "_qualname", r[1].name):
                private_mod = r[0].name.rsplit(".", 1)[-1].startswith("_") and not r[0].is_pkg
                same_pkg = r[0].name.rsplit(".", 1)[0] == self.mod.name.rsplit(".", 1)[0]
                if same_pkg and (private_mod or r[1].name.startswith("_")):
                    return r[1], None
            return None
        if isinstance(f, ast.Attribute) and isinstance(f.value, ast.Name) and f.value.id == "self" and self.cls is not None:
            ms = self.repo.methods(*self.cls)
            if f.attr in ms and ms[f.attr][1] is not self.fn:
                h = ms[f.attr][1]
                if any(isinstance(d, ast.Name) and d.id in ("property", "classmethod") for d in h.decorator_list):
                    return None
                if any(isinstance(d, ast.Name) and d.id == "staticmethod" for d in h.decorator_list):
                    return h, None          # self.f(a, b) on a static method: no receiver is bound
                return h, _name("self")
        return None


def freshen(expr, suffix):
    """rename comprehension / lambda variables of an inlined expression (no capture of caller names)"""
    ren = {n: n + suffix for n in bound_inside(expr)}
    if not ren:
        return expr
    for n in ast.walk(expr):
        if isinstance(n, ast.Name) and n.id in ren:
            n.id = ren[n.id]
        elif isinstance(n, ast.arg) and n.arg in ren:
            n.arg = ren[n.arg]
    return expr


def helper_value(helper, amap):
    """return expression of a pure helper applied to the argument expressions `amap`"""
    if _has_yield(helper):
        return None
    try:
        e = SymExec(strict=True).run(helper.body, {k: sym.clone(v) for k, v in amap.items()})
    except (NotExpr, RecursionError):
        return None
    if e is RAISE:
        return None
    # locals of the helper must all have been eliminated
    local = _assigned_in(helper.body) - set(amap)
    free = au.names(e) - bound_inside(e)
    arg_names = set()
    for v in amap.values():
        arg_names |= au.names(v)
    if (free & local) - arg_names:
        return None
    return e


# ------------------------------------------------------------------------------------------------ the view
class _Rename(ast.NodeTransformer):
    def __init__(self, mapping):
        self.m = mapping

    def visit_Name(self, n):
        if n.id in self.m:
            r = self.m[n.id]
            if isinstance(r, str):
                n.id = r
                return n
            if isinstance(n.ctx, ast.Load):
                return sym.clone(r)
        return n


def _simple(e):
    return isinstance(e, (ast.Name, ast.Constant)) or (isinstance(e, ast.Attribute) and au.chain(e) is not None) \
        or (isinstance(e, ast.UnaryOp) and isinstance(e.operand, ast.Constant))


def block_inline(helper, amap, tag):
    """(statements, return expression) of a helper with side effects and at most one, final, return"""
    if _has_yield(helper) or any(isinstance(s, (ast.FunctionDef, ast.ClassDef)) for s in au.stmts(helper.body)):
        return None
    shared = {n for s in au.stmts(helper.body) if isinstance(s, (ast.Global, ast.Nonlocal)) for n in s.names}
    if any(isinstance(s, (ast.Global, ast.Nonlocal)) and not any(s is x for x in helper.body) for s in au.stmts(helper.body)):
        return None
    body = [s for s in helper.body if not (isinstance(s, ast.Expr) and isinstance(s.value, ast.Constant)) and not isinstance(s, (ast.Global, ast.Nonlocal))]
    rets = [s for s in au.stmts(body) if isinstance(s, ast.Return)]
    if len(rets) > 1 or (rets and rets[0] is not body[-1]) or len(list(au.stmts(body))) > 60:
        return None
    local = _assigned_in(body) - shared          # nonlocal / global names are the caller's own variables
    mapping, pre = {}, []
    for p, v in amap.items():
        if p in local or not _simple(v):
            mapping[p] = f"{p}__{tag}"
            pre.append(ast.Assign(targets=[ast.Name(id=f"{p}__{tag}", ctx=ast.Store())], value=sym.clone(v), lineno=helper.lineno, col_offset=0))
        else:
            mapping[p] = v
    for n in local:
        mapping.setdefault(n, f"{n}__{tag}")
    for s in au.stmts(body):          # comprehension variables
        for n in au.walk(s):
            if isinstance(n, ast.comprehension):
                for x in au.assigned_names(n.target):
                    mapping.setdefault(x, f"{x}__{tag}")
    new = [_Rename(mapping).visit(sym.clone(s)) for s in body]
    ret = None
    if rets:
        ret = new.pop().value
    return pre + new, ret


class View:
    def __init__(self, repo, modname, fn, cls=None, inline_public=False, unroll=True, stop=()):
        self.repo, self.modname, self.orig = repo, modname, fn
        self.res = Resolver(repo, modname, fn, cls, inline_public, stop)
        self.inlined = []        # names of the helpers looked through
        self.tag = 0
        self.n_unrolled = 0
        fn2 = sym.clone(fn)
        fn2.decorator_list = []
        fn2._qualname = getattr(fn, "_qualname", fn.name)
        fn2.body = self.split_chains(fn2.body)
        fn2.body = self.aliases(fn2)
        for _round in range(3):
            for _ in range(4):
                before = len(self.inlined)
                fn2.body = self.inline_block(fn2.body)
                fn2.body = self.inline_generators(fn2.body)
                if len(self.inlined) == before:
                    break
            fn2.body = self.aliases(fn2)
            if not unroll:
                break
            self.n_unrolled = 0
            fn2.body = [fold_literals(st) for st in fn2.body]
            fn2.body = self.unroll(fn2.body)
            fn2.body = [fold_literals(st) for st in fn2.body]
            if not self.n_unrolled:
                break
        ast.fix_missing_locations(fn2)
        link(fn2)
        fn2._view_of = fn
        self.fn = fn2

    # ---- V4
    def split_chains(self, body):
        out = []
        for st in body:
            for fld in ("body", "orelse", "finalbody"):
                b = getattr(st, fld, None)
                if isinstance(b, list) and b and isinstance(b[0], ast.stmt) and not isinstance(st, (ast.FunctionDef, ast.ClassDef)):
                    setattr(st, fld, self.split_chains(b))
            for h in getattr(st, "handlers", []) or []:
                h.body = self.split_chains(h.body)
            if isinstance(st, ast.Assign) and len(st.targets) > 1 and all(isinstance(t, ast.Name) for t in st.targets) and _simple(st.value):
                for t in st.targets:
                    out.append(ast.copy_location(ast.Assign(targets=[t], value=sym.clone(st.value)), st))
            else:
                out.append(st)
        return out

    # ---- V1
    def aliases(self, fn):
        params = set(au.params(fn))
        b = sym.Bindings(fn)
        mapping = {}
        for name, v in b.defs.items():
            if b.count.get(name) != 1 or name in params:
                continue
            ch = au.chain(v) if isinstance(v, ast.Attribute) else None
            if not ch or len(ch) < 2:
                continue
            root = ch[0]
            if root != "self" and not (root in params and b.count.get(root) == 1):
                continue
            if root == "self" and len(ch) == 2 and ch[1] not in ("mesh",):
                # self.x caches: only propagate when the attribute is not stored to in this function
                if any(au.is_self_attr(t, ch[1]) or (isinstance(t, ast.Subscript) and au.is_self_attr(t.value, ch[1]))
                       for s in au.stmts(fn.body) for t in au.assign_targets(s)):
                    continue
            # never an alias of something the function stores through under the alias name (x = self.a; x[i] = ..: keep, still the same object)
            mapping[name] = v
        if not mapping:
            return fn.body
        # the alias must be defined before use at the top level of a block that dominates its uses: approximate by
        # "assigned exactly once" (checked) and "not a loop target / with target" (count == 1 covers it)
        class T(ast.NodeTransformer):
            def visit_FunctionDef(self, n):
                return n

            def visit_Lambda(self, n):
                return n

            def visit_Assign(self, n):
                if len(n.targets) == 1 and isinstance(n.targets[0], ast.Name) and n.targets[0].id in mapping and au.same(n.value, mapping[n.targets[0].id]):
                    return None
                self.generic_visit(n)
                return n

            def visit_Name(self, n):
                if isinstance(n.ctx, ast.Load) and n.id in mapping:
                    return sym.clone(mapping[n.id])
                return n
        t = T()
        out = []
        for st in fn.body:
            r = t.visit(st) if not isinstance(st, (ast.FunctionDef, ast.ClassDef)) else st
            if r is not None:
                out.append(r)
        return self._nonempty(out)

    @staticmethod
    def _nonempty(body):
        return body or [ast.Pass()]

    # ---- V2
    def _inline_expr(self, node):
        """replace inlinable pure calls inside an expression / statement (in place); returns the node"""
        view = self

        class T(ast.NodeTransformer):
            def visit_FunctionDef(self, n):
                return n

            def visit_ClassDef(self, n):
                return n

            def visit_Call(self, n):
                self.generic_visit(n)
                r = view.res.resolve(n)
                if not r:
                    return n
                helper, recv = r
                amap = bind_call(helper, n, recv)
                if amap is None:
                    return n
                e = helper_value(helper, amap)
                if e is None:
                    return n
                view.tag += 1
                view.inlined.append(helper.name)
                return ast.copy_location(freshen(e, f"__{view.tag}"), n)
        return T().visit(node)

    def inline_block(self, body):
        out = []
        for st in body:
            if isinstance(st, (ast.FunctionDef, ast.AsyncFunctionDef, ast.ClassDef)):
                out.append(st)
                continue
            # expressions of this statement (not of nested blocks)
            if isinstance(st, (ast.If, ast.While)):
                st.test = self._inline_expr(st.test)
            elif isinstance(st, (ast.For, ast.AsyncFor)):
                st.iter = self._inline_expr(st.iter)
            elif isinstance(st, (ast.With, ast.AsyncWith)):
                for it in st.items:
                    it.context_expr = self._inline_expr(it.context_expr)
            elif isinstance(st, ast.Try):
                pass
            else:
                st = self._inline_expr(st)
            for fld in ("body", "orelse", "finalbody"):
                b = getattr(st, fld, None)
                if isinstance(b, list) and b and isinstance(b[0], ast.stmt):
                    setattr(st, fld, self._nonempty(self.inline_block(b)))
            for h in getattr(st, "handlers", []) or []:
                h.body = self._nonempty(self.inline_block(h.body))
            # helpers with side effects: hoist in front of simple statements
            pre = []
            if isinstance(st, (ast.Assign, ast.AugAssign, ast.AnnAssign, ast.Expr, ast.Return)):
                for _ in range(6):
                    hit = None
                    for c in [n for n in ast.walk(st) if isinstance(n, ast.Call)]:
                        r = self.res.resolve(c)
                        if not r:
                            continue
                        amap = bind_call(r[0], c, r[1])
                        if amap is None:
                            continue
                        self.tag += 1
                        bi = block_inline(r[0], amap, f"h{self.tag}")
                        if bi is None:
                            continue
                        hit = (c, bi, r[0])
                        break
                    if hit is None:
                        break
                    c, (stmts, ret), helper = hit
                    self.inlined.append(helper.name)
                    for s in stmts:
                        ast.copy_location(s, st)
                        ast.fix_missing_locations(s)
                    pre += stmts
                    repl = ret if ret is not None else _const(None)
                    if isinstance(st, ast.Expr) and st.value is c:
                        st = None
                        break
                    st = _ReplaceNode(c, repl).visit(st)
            out += pre
            if st is not None:
                out.append(st)
        return out

    # ---- V3
    def inline_generators(self, body):
        out = []
        for st in body:
            if isinstance(st, (ast.FunctionDef, ast.AsyncFunctionDef, ast.ClassDef)):
                out.append(st)
                continue
            for fld in ("body", "orelse", "finalbody"):
                b = getattr(st, fld, None)
                if isinstance(b, list) and b and isinstance(b[0], ast.stmt):
                    setattr(st, fld, self._nonempty(self.inline_generators(b)))
            if isinstance(st, ast.For) and isinstance(st.iter, ast.Call) and not st.orelse:
                r = self.res.resolve(st.iter)
                if r:
                    new = self._gen(st, r[0], r[1])
                    if new is not None:
                        out += new
                        continue
                # for c, item in enumerate(_gen(..), start=s): a running counter around the inlined generator
                it = st.iter
                if isinstance(it.func, ast.Name) and it.func.id == "enumerate" and it.args and isinstance(it.args[0], ast.Call) \
                        and isinstance(st.target, ast.Tuple) and len(st.target.elts) == 2 and isinstance(st.target.elts[0], ast.Name):
                    r = self.res.resolve(it.args[0])
                    cname = st.target.elts[0].id
                    has_cont = any(isinstance(x, ast.Continue) and _owner_loop(x, st.body) is None for x in au.stmts(st.body))
                    if r and not has_cont and cname not in _assigned_in(st.body):
                        start = it.args[1] if len(it.args) > 1 else next((k.value for k in it.keywords if k.arg == "start"), _const(0))
                        bump = ast.AugAssign(target=ast.Name(id=cname, ctx=ast.Store()), op=ast.Add(), value=_const(1))
                        inner = ast.For(target=st.target.elts[1], iter=it.args[0], body=list(st.body) + [bump], orelse=[])
                        ast.copy_location(inner, st)
                        ast.copy_location(bump, st)
                        new = self._gen(inner, r[0], r[1])
                        if new is not None:
                            init = ast.copy_location(ast.Assign(targets=[ast.Name(id=cname, ctx=ast.Store())], value=sym.clone(start)), st)
                            for x in [init, bump]:
                                ast.fix_missing_locations(x)
                            out += [init] + new
                            continue
            out.append(st)
        return out

    def _gen(self, loop, helper, recv):
        ys = [n for n in au.walk(helper) if isinstance(n, (ast.Yield, ast.YieldFrom))]
        if len(ys) != 1 or not isinstance(ys[0], ast.Yield) or ys[0].value is None:
            return None
        if any(isinstance(s, ast.Return) and s.value is not None for s in au.stmts(helper.body)):
            return None
        if _contains(loop.body, (ast.Break,)) and any(isinstance(s, ast.Break) and _owner_loop(s, loop.body) is None for s in au.stmts(loop.body)):
            return None
        amap = bind_call(helper, loop.iter, recv)
        if amap is None:
            return None
        self.tag += 1
        tag = f"g{self.tag}"
        body = [s for s in helper.body if not (isinstance(s, ast.Expr) and isinstance(s.value, ast.Constant))]
        local = _assigned_in(body)
        mapping, pre = {}, []
        for p, v in amap.items():
            if p in local or not _simple(v):
                mapping[p] = f"{p}__{tag}"
                pre.append(ast.copy_location(ast.Assign(targets=[ast.Name(id=f"{p}__{tag}", ctx=ast.Store())], value=sym.clone(v)), loop))
            else:
                mapping[p] = v
        for n in local:
            mapping.setdefault(n, f"{n}__{tag}")
        new = [sym.clone(s) for s in body]
        holder = ast.Module(body=new, type_ignores=[])
        link(holder)
        ystmt = None
        for s in au.stmts(new):
            if isinstance(s, ast.Expr) and isinstance(s.value, ast.Yield):
                ystmt = s
        if ystmt is None:
            return None
        # a `continue` of the caller's body must mean "next item": the yield has to be the last statement of its loop body
        blk, owner = au.enclosing_block(ystmt)
        has_cont = any(isinstance(s, ast.Continue) and _owner_loop(s, loop.body) is None for s in au.stmts(loop.body))
        if has_cont and not (isinstance(owner, (ast.For, ast.While)) and blk[-1] is ystmt):
            return None
        new = [_Rename(mapping).visit(s) for s in new]       # in place: `blk` / `ystmt` keep their identity
        blk, owner = au.enclosing_block(ystmt)
        assign = ast.copy_location(ast.Assign(targets=[sym.clone(loop.target)], value=ystmt.value.value), loop)
        idx = [id(x) for x in blk].index(id(ystmt))
        blk[idx:idx + 1] = [assign] + loop.body
        for s in pre + new:
            ast.fix_missing_locations(s)
        self.inlined.append(helper.name)
        return pre + new

    # ---- V5
    def unroll(self, body, lits=None):
        """lits: name -> literal tuple / list bound to it at this point (`for x in NAME` is unrolled through it)"""
        out = []
        lits = dict(lits or {})

        def forget(names):
            names = set(names)
            for k in list(lits):
                if k in names or (au.names(lits[k]) & names):
                    del lits[k]
        for st in body:
            if isinstance(st, (ast.FunctionDef, ast.AsyncFunctionDef, ast.ClassDef)):
                out.append(st)
                continue
            inner = dict(lits)
            if isinstance(st, (ast.For, ast.AsyncFor, ast.While)):
                gone = _assigned_in([st]) | SymExec(strict=False)._mutated(st.body)
                inner = {k: v for k, v in lits.items() if k not in gone and not (au.names(v) & gone)}
            for fld in ("body", "orelse", "finalbody"):
                b = getattr(st, fld, None)
                if isinstance(b, list) and b and isinstance(b[0], ast.stmt):
                    setattr(st, fld, self._nonempty(self.unroll(b, inner)))
            for h in getattr(st, "handlers", []) or []:
                h.body = self._nonempty(self.unroll(h.body, inner))
            if isinstance(st, ast.Assign) and len(st.targets) == 1:
                pairs = list(sym.split_assign(st))
                forget(_assigned_in([st]))
                for n, v in pairs:
                    if isinstance(v, (ast.Tuple, ast.List)) and not any(isinstance(x, ast.Starred) for x in v.elts) and n not in au.names(v):
                        lits[n] = v
            else:
                forget(_assigned_in([st]) | SymExec(strict=False)._mutated([st]))
            if isinstance(st, ast.For) and not st.orelse:
                it = st.iter
                if isinstance(it, ast.Name) and it.id in inner:
                    it = inner[it.id]
                items = lit_items(it, self.repo, self.modname)
                if items is not None and 0 < len(items) <= MAX_UNROLL:
                    nb = no_continue(st.body)
                    if nb is not None and not any(isinstance(s, (ast.Break, ast.Continue)) and _owner_loop(s, nb) is None for s in au.stmts(nb)):
                        copies = []
                        ok = True
                        for it in items:
                            c = bind_target(st.target, it, nb)
                            if c is None:
                                ok = False
                                break
                            copies += c
                        if ok:
                            for s in copies:
                                ast.copy_location(s, st)
                            out += copies
                            self.n_unrolled += 1
                            continue
            out.append(st)
        return out


def const_int(e):
    """integer value of a constant index expression (+, -, *, %, // on literals), None otherwise"""
    if isinstance(e, ast.Constant) and isinstance(e.value, int) and not isinstance(e.value, bool):
        return e.value
    if isinstance(e, ast.UnaryOp) and isinstance(e.op, ast.USub):
        v = const_int(e.operand)
        return None if v is None else -v
    if isinstance(e, ast.BinOp):
        a, b = const_int(e.left), const_int(e.right)
        if a is None or b is None:
            return None
        if isinstance(e.op, ast.Add): return a + b
        if isinstance(e.op, ast.Sub): return a - b
        if isinstance(e.op, ast.Mult): return a * b
        if isinstance(e.op, ast.Mod) and b: return a % b
        if isinstance(e.op, ast.FloorDiv) and b: return a // b
    return None


class _Fold(ast.NodeTransformer):
    def visit_FunctionDef(self, n):
        return n

    def visit_Call(self, n):
        self.generic_visit(n)
        if isinstance(n.func, ast.Name) and n.func.id in ("tuple", "list") and len(n.args) == 1 and not n.keywords \
                and isinstance(n.args[0], (ast.GeneratorExp, ast.ListComp)) and len(n.args[0].generators) == 1 and not n.args[0].generators[0].ifs \
                and isinstance(n.args[0].generators[0].target, ast.Name):
            g = n.args[0].generators[0]          # tuple(f(x) for x in (a, b, c))  ->  (f(a), f(b), f(c))
            items = lit_items(g.iter)
            if items is not None and len(items) <= MAX_UNROLL:
                return ast.copy_location(ast.Tuple(elts=[sym.subst(n.args[0].elt, {g.target.id: it}) for it in items], ctx=ast.Load()), n)
        if any(isinstance(a, ast.Starred) and isinstance(a.value, (ast.Tuple, ast.List)) and not any(isinstance(x, ast.Starred) for x in a.value.elts) for a in n.args):
            args = []
            for a in n.args:
                if isinstance(a, ast.Starred) and isinstance(a.value, (ast.Tuple, ast.List)):
                    args += list(a.value.elts)
                else:
                    args.append(a)
            n.args = args
        return n

    def visit_Subscript(self, n):
        self.generic_visit(n)
        if not isinstance(n.slice, (ast.Slice, ast.Tuple, ast.Constant)):
            k = const_int(n.slice)
            if k is not None:
                n.slice = ast.copy_location(ast.Constant(value=k), n.slice)      # face[(0 + 1) % 3] -> face[1]
        if isinstance(n.ctx, ast.Load) and isinstance(n.value, ast.ListComp) and isinstance(n.slice, ast.Constant) and isinstance(n.slice.value, int) \
                and len(n.value.generators) == 1 and not n.value.generators[0].ifs and isinstance(n.value.generators[0].target, ast.Name) \
                and not n.value.generators[0].is_async:
            g = n.value.generators[0]          # [f(x) for x in R][k]  ==  f(R[k])
            item = ast.Subscript(value=sym.clone(g.iter), slice=ast.Constant(value=n.slice.value), ctx=ast.Load())
            return self.visit(sym.subst(n.value.elt, {g.target.id: item}))
        if isinstance(n.ctx, ast.Load) and isinstance(n.value, (ast.Tuple, ast.List)) and not isinstance(n.slice, ast.Slice) \
                and not any(isinstance(x, ast.Starred) for x in n.value.elts):
            k = const_int(n.slice)
            if k is not None and -len(n.value.elts) <= k < len(n.value.elts):
                return n.value.elts[k]
        return n


def fold_literals(st):
    if isinstance(st, (ast.FunctionDef, ast.AsyncFunctionDef, ast.ClassDef)):
        return st
    return _Fold().visit(st)


class _ReplaceNode(ast.NodeTransformer):
    def __init__(self, old, new):
        self.old, self.new = old, new

    def visit(self, node):
        if node is self.old:
            return self.new
        return super().visit(node)


def _owner_loop(node, body):
    """innermost loop *inside body* that owns a break / continue statement (None: it belongs to the loop whose body this is).
    Works on unlinked trees: searches structurally."""
    def rec(stmts, owner):
        for s in stmts:
            if s is node:
                return (True, owner)
            if isinstance(s, (ast.FunctionDef, ast.AsyncFunctionDef, ast.ClassDef)):
                continue
            inner = s if isinstance(s, (ast.For, ast.AsyncFor, ast.While)) else owner
            for fld in ("body", "orelse", "finalbody"):
                b = getattr(s, fld, None)
                if isinstance(b, list) and b and isinstance(b[0], ast.stmt):
                    r = rec(b, inner if fld == "body" else owner)
                    if r:
                        return r
            for h in getattr(s, "handlers", []) or []:
                r = rec(h.body, owner)
                if r:
                    return r
        return None
    r = rec(body, None)
    return r[1] if r else None


def no_continue(body):
    """body with `if c: ...; continue` restructured into if / else (None when a continue of this loop cannot be removed)"""
    body = [sym.clone(s) for s in body]

    def leaves_by_continue(b):
        return bool(b) and isinstance(b[-1], ast.Continue)

    def rec(stmts):
        out = []
        for i, st in enumerate(stmts):
            if isinstance(st, ast.Continue):
                return out            # rest is dead
            if isinstance(st, ast.If):
                rest = stmts[i + 1:]
                if leaves_by_continue(st.body) and not any(isinstance(s, ast.Continue) and _owner_loop(s, st.body[:-1]) is None for s in au.stmts(st.body[:-1])):
                    inner = rec(st.body[:-1])
                    other = rec(st.orelse + rest)
                    if inner is None or other is None:
                        return None
                    if not inner and other:
                        out.append(ast.copy_location(ast.If(test=negate(st.test), body=other, orelse=[]), st))
                    elif inner or other:
                        out.append(ast.copy_location(ast.If(test=st.test, body=inner or [ast.Pass()], orelse=other), st))
                    return out
                if st.orelse and leaves_by_continue(st.orelse) and not any(
                        isinstance(s, ast.Continue) and _owner_loop(s, st.orelse[:-1]) is None for s in au.stmts(st.orelse[:-1])):
                    inner = rec(st.orelse[:-1])
                    other = rec(st.body + rest)
                    if inner is None or other is None:
                        return None
                    out.append(ast.copy_location(ast.If(test=st.test, body=other or [ast.Pass()], orelse=inner), st))
                    return out
            out.append(st)
        return out
    new = rec(body)
    if new is None:
        return None
    if any(isinstance(s, ast.Continue) and _owner_loop(s, new) is None for s in au.stmts(new)):
        return None
    return new or [ast.Pass()]


_NEG = {ast.Eq: ast.NotEq, ast.NotEq: ast.Eq, ast.In: ast.NotIn, ast.NotIn: ast.In, ast.Is: ast.IsNot, ast.IsNot: ast.Is}


def negate(test):
    if isinstance(test, ast.UnaryOp) and isinstance(test.op, ast.Not):
        return test.operand
    if isinstance(test, ast.Compare) and len(test.ops) == 1 and type(test.ops[0]) in _NEG:
        return ast.copy_location(ast.Compare(left=test.left, ops=[_NEG[type(test.ops[0])]()], comparators=test.comparators), test)
    return ast.UnaryOp(op=ast.Not(), operand=test)


def bind_target(target, item, body):
    """copy of `body` for one literal item of the iterable: names substituted when safe, else an assignment in front"""
    names = au.assigned_names(target)
    rebound = _assigned_in(body)
    pairs = None
    if isinstance(target, ast.Name):
        pairs = [(target.id, item)]
    elif isinstance(target, (ast.Tuple, ast.List)):
        pairs = _pair(target, item)
    safe = pairs is not None and not (set(names) & rebound) and not any(isinstance(n, (ast.NamedExpr, ast.Yield, ast.Await)) for _, v in pairs for n in ast.walk(v))
    if safe:
        # the substituted expressions must not mention names rebound by the body
        for _, v in pairs:
            if au.names(v) & rebound:
                safe = False
    new = [sym.clone(s) for s in body]
    if safe:
        m = {n: v for n, v in pairs}
        return [_Rename(m).visit(s) for s in new]
    assign = ast.Assign(targets=[sym.clone(target)], value=sym.clone(item))
    return [assign] + new


def _pair(target, item):
    if isinstance(target, ast.Name):
        return [(target.id, item)]
    if isinstance(target, (ast.Tuple, ast.List)) and isinstance(item, (ast.Tuple, ast.List)) and len(target.elts) == len(item.elts) \
            and not any(isinstance(x, ast.Starred) for x in target.elts):
        out = []
        for a, b in zip(target.elts, item.elts):
            r = _pair(a, b)
            if r is None:
                return None
            out += r
        return out
    return None


# ------------------------------------------------------------------------------------------------ literal iterables
def _int(e):
    from .. import order
    v = order.fold_const(e) if e is not None else None
    if isinstance(v, bool) or v is None:
        return None
    if isinstance(v, float) and v == int(v):
        return int(v)
    return v if isinstance(v, int) else None


def lit_items(e, repo=None, modname=None, depth=0):
    """list of item expressions when `e` is an iterable whose items are known statically, else None"""
    if depth > 4:
        return None
    rec = lambda x: lit_items(x, repo, modname, depth + 1)
    if isinstance(e, (ast.Tuple, ast.List)):
        return None if any(isinstance(x, ast.Starred) for x in e.elts) else list(e.elts)
    if isinstance(e, ast.BinOp) and isinstance(e.op, ast.Add):
        a, b = rec(e.left), rec(e.right)
        return a + b if a is not None and b is not None else None
    if isinstance(e, ast.Subscript) and isinstance(e.slice, ast.Slice):
        a = rec(e.value)
        if a is None:
            return None
        lo = _int(e.slice.lower) if e.slice.lower is not None else None
        hi = _int(e.slice.upper) if e.slice.upper is not None else None
        stp = _int(e.slice.step) if e.slice.step is not None else None
        if (e.slice.lower is not None and lo is None) or (e.slice.upper is not None and hi is None) or (e.slice.step is not None and stp is None):
            return None
        return a[slice(lo, hi, stp)]
    if isinstance(e, ast.Call):
        t = au.call_tail(e)
        if isinstance(e.func, ast.Name) or (isinstance(e.func, ast.Attribute) and isinstance(e.func.value, ast.Name)):
            if t in ("list", "tuple", "iter") and len(e.args) == 1 and isinstance(e.func, ast.Name):
                return rec(e.args[0])
            if t == "reversed" and len(e.args) == 1:
                a = rec(e.args[0])
                return a[::-1] if a is not None else None
            if t == "zip" and e.args and isinstance(e.func, ast.Name):
                cols = [rec(a) for a in e.args]
                if any(c is None for c in cols):
                    return None
                return [ast.Tuple(elts=list(r), ctx=ast.Load()) for r in zip(*cols)]
            if t == "enumerate" and e.args and isinstance(e.func, ast.Name):
                a = rec(e.args[0])
                start = 0
                if len(e.args) > 1:
                    start = _int(e.args[1])
                for k in e.keywords:
                    if k.arg == "start":
                        start = _int(k.value)
                if a is None or start is None:
                    return None
                return [ast.Tuple(elts=[_const(i + start), x], ctx=ast.Load()) for i, x in enumerate(a)]
            if t == "range" and isinstance(e.func, ast.Name) and 1 <= len(e.args) <= 3:
                vs = [_int(a) for a in e.args]
                if any(v is None for v in vs):
                    return None
                r = range(*vs)
                return [_const(i) for i in r] if len(r) <= MAX_UNROLL else None
            if repo is not None and e.args and not e.keywords:
                g = _resolve_any(repo, modname, e.func)
                if g is not None:
                    args = [rec(a) for a in e.args[:1]] + [None] * (len(e.args) - 1)
                    if args[0] is not None:
                        return eval_generator(g, [args[0]] + [_int(a) for a in e.args[1:]])
    return None


def _resolve_any(repo, modname, func):
    try:
        if isinstance(func, ast.Name):
            r = repo.resolve_func(modname, func.id)
            return r[1] if r and r[1] is not None else None
        if isinstance(func, ast.Attribute) and isinstance(func.value, ast.Name):
            r = repo.resolve(modname, func.value.id)
            if r and r[0] == "module" and r[1] in repo.modules:
                rr = repo.resolve_func(r[1], func.attr)
                return rr[1] if rr and rr[1] is not None else None
    except Exception:
        return None
    return None


def eval_generator(fn, args):
    """items produced by a small pure generator / list-returning function of the package applied to a literal sequence
    (`utils.cyclic_pairs((p, q, r))`): a tiny interpreter over  n = len(L) / for i in range(..) / yield L[..] ...
    args: first a list of item expressions, then integers.  None when the function is outside that fragment."""
    ps = [p.arg for p in fn.args.args]
    if len(ps) != len(args) or fn.args.vararg or fn.args.kwarg or any(a is None for a in args):
        return None
    env = dict(zip(ps, args))
    out = []
    budget = [400]

    class Bail(Exception):
        pass

    def ev(e):
        budget[0] -= 1
        if budget[0] < 0:
            raise Bail()
        if isinstance(e, ast.Constant) and isinstance(e.value, int) and not isinstance(e.value, bool):
            return e.value
        if isinstance(e, ast.Name):
            if e.id in env:
                return env[e.id]
            raise Bail()
        if isinstance(e, ast.Tuple):
            return ast.Tuple(elts=[as_expr(ev(x)) for x in e.elts], ctx=ast.Load())
        if isinstance(e, ast.UnaryOp) and isinstance(e.op, ast.USub):
            v = ev(e.operand)
            if isinstance(v, int):
                return -v
            raise Bail()
        if isinstance(e, ast.BinOp):
            a, b = ev(e.left), ev(e.right)
            if isinstance(a, int) and isinstance(b, int):
                if isinstance(e.op, ast.Add): return a + b
                if isinstance(e.op, ast.Sub): return a - b
                if isinstance(e.op, ast.Mult): return a * b
                if isinstance(e.op, ast.Mod) and b: return a % b
                if isinstance(e.op, ast.FloorDiv) and b: return a // b
            if isinstance(a, list) and isinstance(b, list) and isinstance(e.op, ast.Add):
                return a + b
            raise Bail()
        if isinstance(e, ast.Call) and isinstance(e.func, ast.Name):
            if e.func.id == "len" and len(e.args) == 1:
                v = ev(e.args[0])
                if isinstance(v, list):
                    return len(v)
            if e.func.id == "range":
                vs = [ev(a) for a in e.args]
                if all(isinstance(v, int) for v in vs) and len(range(*vs)) <= 64:
                    return list(range(*vs))
            if e.func.id in ("list", "tuple") and len(e.args) == 1:
                v = ev(e.args[0])
                if isinstance(v, list):
                    return list(v)
            raise Bail()
        if isinstance(e, ast.Subscript):
            base = ev(e.value)
            if not isinstance(base, list):
                raise Bail()
            if isinstance(e.slice, ast.Slice):
                lo = ev(e.slice.lower) if e.slice.lower is not None else None
                hi = ev(e.slice.upper) if e.slice.upper is not None else None
                st = ev(e.slice.step) if e.slice.step is not None else None
                if any(x is not None and not isinstance(x, int) for x in (lo, hi, st)):
                    raise Bail()
                return base[slice(lo, hi, st)]
            i = ev(e.slice)
            if isinstance(i, int) and -len(base) <= i < len(base):
                return base[i]
            raise Bail()
        if isinstance(e, ast.ListComp) and len(e.generators) == 1 and not e.generators[0].ifs and isinstance(e.generators[0].target, ast.Name):
            it = ev(e.generators[0].iter)
            if not isinstance(it, list):
                raise Bail()
            res = []
            for v in it:
                env[e.generators[0].target.id] = v
                res.append(ev(e.elt))
            return res
        raise Bail()

    def as_expr(v):
        if isinstance(v, int):
            return _const(v)
        if isinstance(v, ast.AST):
            return v
        if isinstance(v, list):
            return ast.Tuple(elts=[as_expr(x) for x in v], ctx=ast.Load())
        raise Bail()

    def run(body):
        for st in body:
            if isinstance(st, ast.Expr) and isinstance(st.value, ast.Constant):
                continue
            if isinstance(st, ast.Assign) and len(st.targets) == 1 and isinstance(st.targets[0], ast.Name):
                env[st.targets[0].id] = ev(st.value)
            elif isinstance(st, ast.For) and isinstance(st.target, ast.Name) and not st.orelse:
                it = ev(st.iter)
                if not isinstance(it, list):
                    raise Bail()
                for v in it:
                    env[st.target.id] = v
                    run(st.body)
            elif isinstance(st, ast.Expr) and isinstance(st.value, ast.Yield) and st.value.value is not None:
                out.append(as_expr(ev(st.value.value)))
            elif isinstance(st, ast.Return) and st.value is not None and not out:
                v = ev(st.value)
                if not isinstance(v, list):
                    raise Bail()
                out.extend(as_expr(x) for x in v)
                return
            else:
                raise Bail()
    try:
        run(fn.body)
    except (Bail, RecursionError):
        return None
    return out


# ------------------------------------------------------------------------------------------------ cache
_CACHE = {}


def view(repo, modname, fn, cls=None, inline_public=False, unroll=True, stop=()):
    """the view (FunctionDef copy, parent-linked) of a function; cached per repository object"""
    key = (id(repo), modname, id(fn), id(cls[1]) if cls else None, inline_public, unroll, tuple(sorted(stop)))
    v = _CACHE.get(key)
    if v is None or v[0] is not repo:
        try:
            vw = View(repo, modname, fn, cls, inline_public, unroll, stop)
            v = (repo, vw.fn, vw.inlined)
        except (RecursionError, NotExpr):
            v = (repo, fn, [])
        if len(_CACHE) > 4000:
            _CACHE.clear()
        _CACHE[key] = v
    return v[1]
