"""C04 helper: what rows does an importer store?  (reader side model, works on a flattened importer, see hc_flat)

Every place where a row is added to `<obj>.<kind>` (append / extend / `+= [row]`, also through a local caching the container)
becomes an RBlock: the element kind, the RowSpec of the row expression (how many tokens, how many leading tokens skipped, the
numeric conversion and the integer added to it, order-changing wrappers), the constants the enclosing branches compare against,
the count bounding the enclosing loop.  A row expression the model does not understand has `spec.ok == False`: the rules answer
`undecided` there."""
from __future__ import annotations
import ast
from .. import au, sym
from . import codec_c04 as cc

ORDER_DESTROYING = {"sorted", "reversed", "keyify", "set", "frozenset", "sort", "reverse", "unique", "flip", "roll",
                    "shuffle", "argsort"}
FLOAT_OK = {"float", "float64", "double", "float_", "longdouble"}
NUM_CONV = {"float", "int", "round", "float16", "float32", "float64", "half", "single", "double", "float_", "longdouble",
            "trunc", "floor", "ceil", "around", "round_", "rint", "int32", "int64", "uint32", "intc"}
WRAPPERS = {"Vec", "tuple", "list", "array", "asarray"}


class RowSpec:
    def __init__(self):
        self.arity = None      # ('const', n) | ('rest',) | ('sym', src) | ('symoff', src, k) | None (unrecognised)
        self.skip = 0
        self.convs = set()
        self.offsets = set()
        self.order_ops = []
        self.token_positions = []
        self.ok = False

    def __repr__(self):
        return f"RowSpec(arity={self.arity}, skip={self.skip}, convs={sorted(self.convs)}, offsets={sorted(map(str, self.offsets))}, ok={self.ok})"


class RBlock:
    def __init__(self, **kw):
        self.__dict__.update(kw)


def conv_of(elt):
    """(conversion call tail, offset) of one element expression; (None, None) when no conversion call."""
    calls = [c for c in au.walk(elt) if isinstance(c, ast.Call) and au.call_tail(c) in NUM_CONV]
    if not calls:
        return None, None
    outer = [c for c in calls if not any(c is not d and any(x is c for x in ast.walk(d)) for d in calls)]
    c = outer[0]
    return au.call_tail(c), cc.arith_context(c, elt)


def slice_info(sl):
    """(skip, arity) of a slice over a token list."""
    lo = 0 if sl.lower is None else au.const(sl.lower)
    if sl.step is not None and au.const(sl.step) != 1:
        return None, None
    if not isinstance(lo, int) or lo < 0:
        return None, None
    if sl.upper is None:
        return lo, ("rest",)
    hi = au.const(sl.upper)
    if isinstance(hi, int):
        return (lo, ("const", hi - lo)) if hi >= lo else (None, None)
    try:
        p = sym.to_poly(sl.upper, opaque=False) - lo
    except sym.NotPoly:
        return lo, None
    atoms = p.atoms()
    if len(atoms) == 1 and p.coeff(next(iter(atoms))) == sym.Poly.const(1) and p.without(next(iter(atoms))).is_const():
        a = next(iter(atoms))
        k = p.without(a).const_value()
        if k == 0:
            return lo, ("sym", a)
        if k.denominator == 1:
            return lo, ("symoff", a, int(k))
    return lo, None


def rowspec(expr, b, at):
    rs = RowSpec()
    e = expr
    outer_slice = None
    for _ in range(10):
        if isinstance(e, ast.Name):
            d = b.reaching(e.id, at)
            if d is None:
                break
            at = getattr(b, "_last_def_stmt", at)
            e = d
            continue
        if isinstance(e, ast.Call) and au.call_tail(e) in WRAPPERS and len(e.args) == 1 and not e.keywords:
            e = e.args[0]
            continue
        if isinstance(e, ast.Call) and au.call_tail(e) in ORDER_DESTROYING:
            rs.order_ops.append(au.call_tail(e))
            if len(e.args) == 1:
                e = e.args[0].value if isinstance(e.args[0], ast.Starred) else e.args[0]
                continue
            e = ast.Tuple(elts=list(e.args), ctx=ast.Load())
            continue
        if isinstance(e, ast.Subscript) and isinstance(e.slice, ast.Slice) and e.slice.step is not None \
                and isinstance(au.const(e.slice.step), int) and au.const(e.slice.step) < 0:
            rs.order_ops.append("[::-1]")
            e = e.value
            continue
        if isinstance(e, ast.Subscript) and isinstance(e.slice, ast.Slice) and outer_slice is None \
                and isinstance(e.value, (ast.ListComp, ast.GeneratorExp, ast.Call, ast.Name)):
            outer_slice = e.slice
            e = e.value
            continue
        break
    if isinstance(e, (ast.ListComp, ast.GeneratorExp)) and len(e.generators) == 1 and not e.generators[0].ifs:
        g = e.generators[0]
        conv, off = conv_of(e.elt)
        if conv is not None:
            rs.convs.add(conv)
            rs.offsets.add(off)
        src = g.iter
        for _ in range(4):
            if isinstance(src, ast.Name):
                d = b.reaching(src.id, at)
                if d is None:
                    break
                src = d
            else:
                break
        skip, arity = 0, ("rest",)
        extra_skip = 0
        base = src.value if isinstance(src, ast.Subscript) and isinstance(src.slice, ast.Slice) else src
        if isinstance(base, ast.Name):
            extra_skip = base_offset(b, base.id, at)      # None: bound in a way the model does not follow
        elif not isinstance(base, (ast.ListComp, ast.GeneratorExp)) and not _plain_token_list(base):
            extra_skip = None                              # tokens of a part of the line only: position unknown
        if isinstance(src, ast.Subscript) and isinstance(src.slice, ast.Slice):
            skip, arity = slice_info(src.slice)
        elif isinstance(src, (ast.ListComp, ast.GeneratorExp)) and len(src.generators) == 1 and not src.generators[0].ifs:
            # a comprehension over a comprehension ([float(x) for x in (t.strip() for t in toks)])
            inner = src.generators[0].iter
            if isinstance(inner, ast.Subscript) and isinstance(inner.slice, ast.Slice):
                skip, arity = slice_info(inner.slice)
        if outer_slice is not None:
            s2, a2 = slice_info(outer_slice)
            if arity == ("rest",) and s2 is not None:
                skip, arity = (skip or 0) + s2, a2
            else:
                arity = None
        if extra_skip is None:
            skip = None
        elif skip is not None:
            skip += extra_skip
        rs.skip, rs.arity = skip, arity
        rs.ok = arity is not None and skip is not None
        return rs
    if isinstance(e, (ast.List, ast.Tuple)) and e.elts and outer_slice is None \
            and not any(isinstance(x, ast.Starred) for x in e.elts):
        rs.arity = ("const", len(e.elts))
        for x in e.elts:
            if isinstance(x, ast.Name):
                d = b.reaching(x.id, at)
                if d is not None:
                    x = d
            conv, off = conv_of(x)
            if conv is None and isinstance(x, ast.Subscript) and isinstance(x.value, ast.Name):
                # the tokens were converted as a whole before being indexed: values = [float(t) for t in tokens]
                d0 = b.reaching(x.value.id, at)
                for _ in range(2):
                    if isinstance(d0, ast.Call) and au.call_tail(d0) in WRAPPERS and len(d0.args) == 1:
                        d0 = d0.args[0]
                if isinstance(d0, (ast.ListComp, ast.GeneratorExp)) and len(d0.generators) == 1:
                    conv, off = conv_of(d0.elt)
            if conv is not None:
                rs.convs.add(conv)
                rs.offsets.add(off)
            pos = None
            for s in au.walk(x):
                if isinstance(s, ast.Subscript) and isinstance(au.const(s.slice), int) and isinstance(s.value, ast.Name):
                    off = base_offset(b, s.value.id, at)
                    pos = au.const(s.slice) + off if off is not None else "?"
            rs.token_positions.append(pos)
        if "?" in rs.token_positions:
            rs.token_positions = []
            return rs
        known = [p for p in rs.token_positions if p is not None]
        rs.skip = min(known) if known else 0
        rs.ok = True
        return rs
    return rs


def base_offset(b, name, at):
    """number of leading tokens of the line that are not in the token list `name` (0 for the split line itself, k when the list is
    the rest of a starred unpacking / a slice [k:]); None when the list is bound in a way the model does not follow"""
    off = 0
    for _ in range(5):
        d = b.reaching(name, at)
        if d is not None:
            if isinstance(d, ast.Name):
                name = d.id
                continue
            if isinstance(d, ast.Subscript) and isinstance(d.slice, ast.Slice) and isinstance(d.value, ast.Name):
                sk, ar = slice_info(d.slice)
                if sk is None:
                    return None
                off += sk
                name = d.value.id
                continue
            return off if _plain_token_list(d) else None
        k = starred_offset(b, name)
        if k is not None:
            off += k[0]
            if isinstance(k[1], ast.Name):
                name = k[1].id
                continue
            return off
        fn = b_fn(b)
        if name in b.loops or (fn is not None and name in au.params(fn)) or b.count.get(name, 0) == 0:
            return off
        return None
    return None


def _plain_token_list(d):
    """`<line>.split()` / `<line>.strip().split()` / `<queue>.popleft()` .. : the whole line, nothing cut off before tokenising"""
    e = d
    for _ in range(6):
        if isinstance(e, ast.Call) and isinstance(e.func, ast.Attribute) and e.func.attr in ("split", "strip", "rstrip", "lstrip", "popleft",
                                                                                               "pop", "readline", "lower") \
                and not (e.func.attr == "split" and e.args and not (isinstance(e.args[0], ast.Constant) and e.args[0].value is None)):
            e = e.func.value
            continue
        if isinstance(e, ast.Call) and isinstance(e.func, ast.Name) and e.func.id in ("next", "list", "tuple") and e.args:
            e = e.args[0]
            continue
        if isinstance(e, (ast.ListComp, ast.GeneratorExp)) and len(e.generators) == 1 and not e.generators[0].ifs:
            e = e.generators[0].iter          # one converted value per token
            continue
        break
    return isinstance(e, (ast.Name, ast.Attribute)) or (isinstance(e, ast.Subscript) and not isinstance(e.slice, ast.Slice))


def b_fn(b):
    return getattr(b, "_fn", None)


def starred_offset(b, name):
    """(k, source) when `name` is bound by `t0, .., *name = source` (k leading targets), exactly once"""
    fn = b_fn(b)
    if fn is None:
        return None
    hits = []
    for st in au.stmts(fn.body):
        if isinstance(st, ast.Assign) and len(st.targets) == 1 and isinstance(st.targets[0], (ast.Tuple, ast.List)):
            elts = st.targets[0].elts
            for i, t in enumerate(elts):
                if isinstance(t, ast.Starred) and isinstance(t.value, ast.Name) and t.value.id == name:
                    if i == len(elts) - 1:
                        v = st.value
                        if isinstance(v, ast.BoolOp) and isinstance(v.op, ast.Or):
                            v = v.values[0]
                        hits.append((i, v))
                    else:
                        hits.append(None)
    if len(hits) == 1 and hits[0] is not None and b.count.get(name, 0) <= 2:
        return hits[0]
    return None


def branch_keys(node, stop=None):
    """Constants the enclosing branches compare against to reach `node`: [(compared expr, constant, polarity, test)] innermost
    first; tests that are not `x == constant` give (None, None, pol, test)."""
    out = []
    for test, pol in au.guards(node, stop=stop):
        if isinstance(test, ast.Compare) and len(test.ops) == 1 and isinstance(test.ops[0], (ast.Eq, ast.NotEq)):
            l, r = test.left, test.comparators[0]
            p = pol if isinstance(test.ops[0], ast.Eq) else (not pol)
            if isinstance(r, ast.Constant) and not isinstance(l, ast.Constant):
                out.append((l, r.value, p, test))
            elif isinstance(l, ast.Constant) and not isinstance(r, ast.Constant):
                out.append((r, l.value, p, test))
            else:
                out.append((None, None, pol, test))
        elif isinstance(test, ast.Compare) and len(test.ops) == 1 and isinstance(test.ops[0], (ast.In, ast.NotIn)) \
                and isinstance(test.comparators[0], (ast.Tuple, ast.List, ast.Set)) and len(test.comparators[0].elts) == 1 \
                and isinstance(test.comparators[0].elts[0], ast.Constant):
            p = pol if isinstance(test.ops[0], ast.In) else (not pol)
            out.append((test.left, test.comparators[0].elts[0].value, p, test))
        else:
            out.append((None, None, pol, test))
    return out


def container_of(e, b, at):
    """kind when `e` denotes `<obj>.<kind>` (directly or through a local bound to it)"""
    for _ in range(3):
        if isinstance(e, ast.Name):
            d = b.reaching(e.id, at)
            if d is None:
                return None
            e = d
        else:
            break
    if isinstance(e, ast.Attribute) and e.attr in cc.KINDS and isinstance(e.value, ast.Name):
        return e.attr
    return None


def row_adds(fn, b):
    """[(kind, row expr, node)] for every statement that adds ONE row to `<obj>.<kind>`; [(kind, None, node)] for additions whose
    shape is not one row (bulk `+=` of an unknown sequence)"""
    out = []
    for c in au.calls(fn):
        f = c.func
        if isinstance(f, ast.Attribute) and f.attr in ("append", "extend") and len(c.args) == 1:
            kind = container_of(f.value, b, c)
            if kind is None:
                continue
            if f.attr == "append":
                out.append((kind, c.args[0], c))
            elif isinstance(c.args[0], (ast.List, ast.Tuple)) and len(c.args[0].elts) == 1:
                out.append((kind, c.args[0].elts[0], c))
            else:
                out.append((kind, None, c))
    for st in au.stmts(fn.body):
        if isinstance(st, ast.AugAssign) and isinstance(st.op, ast.Add):
            kind = container_of(st.target, b, st) if isinstance(st.target, (ast.Attribute, ast.Name)) else None
            if kind is None:
                continue
            if isinstance(st.value, (ast.List, ast.Tuple)) and len(st.value.elts) == 1:
                out.append((kind, st.value.elts[0], st))
            else:
                out.append((kind, None, st))
    order = {id(n): i for i, n in enumerate(au.walk_ordered(fn))}
    # a bulk addition of a local list that was itself filled row by row (`rows = []; rows.append(row) ..; obj.K += rows`), or of a
    # comprehension of rows: the rows are those
    res = []
    for kind, row, node in out:
        if row is not None:
            res.append((kind, row, node))
            continue
        val = node.value if isinstance(node, ast.AugAssign) else node.args[0]
        if isinstance(val, ast.Call) and isinstance(val.func, ast.Name) and val.func.id == "list" and len(val.args) == 1:
            val = val.args[0]
        if isinstance(val, (ast.ListComp, ast.GeneratorExp)) and len(val.generators) == 1 and not val.generators[0].ifs:
            res.append((kind, val.elt, node))
            continue
        staged = None
        at_ = node
        for _ in range(3):
            if isinstance(val, ast.Name):
                d0 = b.reaching(val.id, at_)
                if isinstance(d0, ast.Name):
                    val, at_ = d0, getattr(b, "_last_def_stmt", at_)
        if isinstance(val, ast.Name):
            d = b.reaching(val.id, at_)
            dst = getattr(b, "_last_def_stmt", None)
            if isinstance(d, (ast.ListComp, ast.GeneratorExp)) and len(d.generators) == 1 and not d.generators[0].ifs:
                res.append((kind, d.elt, dst))
                continue
            if isinstance(d, ast.List) and not d.elts and dst is not None:
                lo, hi = order.get(id(dst), 0), order.get(id(node), 0)
                apps = [c for c in au.calls(fn) if isinstance(c.func, ast.Attribute) and c.func.attr == "append" and len(c.args) == 1
                        and isinstance(c.func.value, ast.Name) and c.func.value.id == val.id and lo < order.get(id(c), -1) < hi]
                uses = [n for n in au.walk(fn) if isinstance(n, ast.Name) and isinstance(n.ctx, ast.Load) and n.id == val.id and lo < order.get(id(n), -1) < hi]
                if apps and len(uses) == len(apps):
                    staged = apps
        if staged:
            for c in staged:
                res.append((kind, c.args[0], c))
        else:
            res.append((kind, None, node))
    res.sort(key=lambda t: order.get(id(t[2]), 0))
    return res


def loop_count(node):
    """the `n` of the nearest enclosing `for _ in range(n)`"""
    for a in au.ancestors(node):
        if isinstance(a, ast.For):
            it = a.iter
            if isinstance(it, ast.Call) and au.call_tail(it) == "range" and len(it.args) == 1:
                return it.args[0], a
            return None, a
        if isinstance(a, (ast.FunctionDef, ast.AsyncFunctionDef)):
            break
    return None, None


def reader_blocks(fmt, fn):
    """(bindings, [RBlock], [bulk additions])"""
    b = sym.Bindings(fn)
    b._fn = fn
    out, bulk = [], []
    for kind, row, node in row_adds(fn, b):
        if row is None:
            bulk.append((kind, node))
            continue
        rs = rowspec(row, b, node)
        cnt, lp = loop_count(node)
        out.append(RBlock(fmt=fmt, kind=kind, spec=rs, node=node, row=row, keys=branch_keys(node), fn=fn, count=cnt, loop=lp, via=None, b=b))
    return b, out, bulk
