"""C11: obligations of KDTree.query (k nearest neighbours) and KDTree.query_radius, decided on symbolic paths (general iteration)."""
from __future__ import annotations
import ast
from .. import au, sym, order
from . import hg_symex as S
from . import hg_logic as L
from . import c1120_util as U
from .hg_kd_build import Verdicts, PUSH, _name, poly

KD = "spatial.kdtree"
PQM = "utils.priority_queue"
HEAP_POP = ("pop", "get")


def is_inf(ex, e):
    o = ex.expand(e)
    if isinstance(o, ast.Call) and au.call_tail(o) == "float" and len(o.args) == 1 and isinstance(o.args[0], ast.Constant) \
            and str(o.args[0].value).lower().lstrip("+") in ("inf", "infinity"):
        return True
    c = au.chain(o)
    return bool(c) and c[-1] in ("inf", "Inf", "infty", "Infinity", "PINF") and c[0] in ("np", "numpy", "math", "inf")


def num(t):
    return int(t[2:]) if t and t[0] == "$" and t[2:].isdigit() else -1


class Path:
    """one path of a traversal (work-list loop popping node ids)"""

    def __init__(self, ex, st):
        self.ex, self.st = ex, st
        self.R = self.P = self.loop = self.pop = None
        for ev in S.calls(st, tail=("pop", "popleft")):
            if ev.loops and len(ev.loops) == 1 and S.tok_name(ev.recv) and ex.kind(ev.recv) in ("call", "display", "carried"):
                o = ex.origin(self.base(ex, ev.recv))
                if isinstance(o, ast.Call) and au.call_tail(o) == "PriorityQueue":
                    continue
                self.R, self.P, self.loop, self.pop = au.src(ev.recv), ev.tok, ev.loops[0][0], ev
                break
        self.node = f"self.nodes[{self.P}]" if self.P else None
        self.leaf = None
        self.leaf_cond = None
        if self.P:
            for i, (e, pol, _, kind) in enumerate(st.conds):
                o = ex.expand(e)
                o, pol = au.strip_not(o, pol)
                if isinstance(o, ast.Call) and au.call_tail(o) == "isinstance" and len(o.args) == 2 and self.same_node(o.args[0]):
                    cls = (au.chain(o.args[1]) or ["?"])[-1]
                    if cls in ("Leaf", "Node"):
                        self.leaf, self.leaf_cond = (cls == "Leaf") == pol, i
                        break

    @staticmethod
    def base(ex, e):
        """the container a (possibly loop-carried) work-list token stood for before the loop"""
        for _ in range(4):
            c = ex.carried(e)
            if c is None:
                break
            e = c[1]
        return e

    def same_node(self, e):
        t = au.src(e)
        return t in (f"self.nodes[{self.ex.text(_name(self.P))}]", self.node)

    def inside(self, ev):
        return bool(ev.loops) and ev.loops[0][0] == self.loop

    def initial(self):
        vals, unknown = [], False
        b0 = self.base(self.ex, _name(self.R))
        o = self.ex.origin(b0) if S.tok_name(b0) else None
        names = {self.R, au.src(b0)}
        if isinstance(o, ast.Call):
            if o.args:
                a = o.args[0]
                d = self.ex.origin(a) if self.ex.kind(a) == "display" else a
                if isinstance(d, (ast.Tuple, ast.List)):
                    vals.extend(d.elts)
                else:
                    unknown = True
        elif isinstance(o, ast.List):
            vals.extend(o.elts)
        else:
            unknown = True
        for ev in self.st.events:
            if ev.kind == "call" and not ev.loops and ev.recv is not None and au.src(ev.recv) in names and ev.tail in PUSH:
                if ev.tail in ("append", "appendleft") and len(ev.args) == 1:
                    vals.append(ev.args[0])
                else:
                    unknown = True
        return vals, unknown

    def pushes(self):
        """[(event, pushed value)] on the work-list during the iteration; None = not recognised"""
        out = []
        for ev in self.st.events:
            if ev.kind != "call" or not self.inside(ev) or ev.recv is None or au.src(ev.recv) != self.R:
                continue
            if ev.tail in ("append", "appendleft") and len(ev.args) == 1:
                out.append((ev, ev.args[0]))
            elif ev.tail in ("extend", "extendleft") and len(ev.args) == 1:
                a = ev.args[0]
                items = self.ex.contents(a.id, self.st) if self.ex.kind(a) == "display" else (list(a.elts) if isinstance(a, (ast.Tuple, ast.List)) else None)
                if items is not None and not any(isinstance(x, ast.Starred) for x in items):
                    out.extend((ev, x) for x in items)
                else:
                    return None
            elif ev.tail in ("insert", "remove", "clear", "rotate"):
                return None
        # `stack += [a, b]` / `stack = stack + [...]` on a local work-list
        c = self.ex.carried(_name(self.R))
        if c is not None:
            v = self.st.heap.get(c[0]) if c[0].startswith("self.") else self.st.locals.get(c[0])
            if v is not None and au.src(v) != self.R:
                ops = []
                cur = v
                while isinstance(cur, ast.BinOp) and isinstance(cur.op, ast.Add):
                    ops.append(cur.right)
                    cur = cur.left
                if au.src(cur) != self.R:
                    return None
                for a in reversed(ops):
                    d = self.ex.origin(a) if self.ex.kind(a) == "display" else a
                    if isinstance(d, (ast.Tuple, ast.List)) and not any(isinstance(x, ast.Starred) for x in d.elts):
                        out.extend((None, x) for x in d.elts)
                    else:
                        return None
        return out

    def child(self, e):
        """'left' / 'right' when `e` is that child id of the visited node"""
        o = e
        if isinstance(o, ast.Attribute) and o.attr in ("left", "right") and self.same_node(o.value):
            return o.attr
        return None

    def box_dist(self, e):
        """node expression X when `e` is (a token of) `self.nodes[X].bb.distance(pt ...)`; also returns the call"""
        o = self.ex.origin(e) if self.ex.kind(e) == "call" else None
        if isinstance(o, ast.Call) and isinstance(o.func, ast.Attribute) and o.func.attr == "distance" \
                and isinstance(o.func.value, ast.Attribute) and o.func.value.attr == "bb":
            n = o.func.value.value
            if isinstance(n, ast.Subscript) and au.src(n.value) == "self.nodes":
                return n.slice, o
        return None


def default_only(fn, st, core):
    """False when the path needs a non-default value of an optional parameter that is not in `core`"""
    a = fn.args
    names = [x.arg for x in a.args]
    defaults = dict(zip(names[len(names) - len(a.defaults):], a.defaults))
    defaults.update({x.arg: d for x, d in zip(a.kwonlyargs, a.kw_defaults) if d is not None})
    for e, pol, _, kind in st.conds:
        ns = {n.id for n in ast.walk(e) if isinstance(n, ast.Name)}
        opt = [n for n in ns if n in defaults and n not in core]
        if len(opt) != 1 or len(ns - {"None", "True", "False"}) != 1:
            continue
        d = defaults[opt[0]]
        if not isinstance(d, ast.Constant):
            continue
        try:
            val = eval(compile(ast.fix_missing_locations(ast.Expression(body=sym.clone(e))), "<cond>", "eval"), {"__builtins__": {}}, {opt[0]: d.value})
        except Exception:
            continue
        if bool(val) != pol:
            return False
    return True


def traversal(ctx, qual, rules, core):
    repo = ctx.repo
    fn = repo.func(KD, qual)
    site = ctx.site(KD, fn)
    ex = S.Exec(repo, KD, "KDTree", havoc=True)
    try:
        states = [s for s in ex.run(fn, args=S.default_args(fn, set(au.params(fn, skip_self=True)[:2]))) if s.end != "raise" and (core is None or default_only(fn, s, core))]
    except (S.GiveUp, RecursionError) as e:
        for r in rules:
            ctx.undecided(r, site, f"{fn.name} is too branchy for path enumeration", str(e))
        return None
    paths = [Path(ex, s) for s in states]
    its = [p for p in paths if p.R is not None]
    if not its:
        for r in rules:
            ctx.undecided(r, site, f"search work-list (a loop that pops node ids until none is left) not recognised in {fn.name}",
                          "the search obligations are stated on the iterations of that loop")
        return None
    return fn, site, ex, paths, its


def check_start(V, its, root_id, what):
    p = its[0]
    vals, unk = p.initial()
    if unk:
        V.und("start", "C11-I1", f"initial content of the work-list of {what} not recognised")
    elif root_id is None:
        V.und("start", "C11-I1", "the id of the root could not be read from the constructor")
    elif len(vals) == 1 and au.const(p.ex.expand(vals[0])) == root_id:
        V.ok("start", "C11-I1", f"{what} starts from the root id")
    elif len(vals) == 1 and au.const(p.ex.expand(vals[0])) is None:
        V.und("start", "C11-I1", f"the node {what} starts from is not a constant id")
    else:
        V.fail("start", "C11-I1", f"{what} does not start from exactly the root id",
               f"root id is {root_id}; the work-list starts with {[p.ex.text(v) for v in vals]}")


def check_children(V, its, what, key="both"):
    """both children of a visited inner node can be queued (on the path where nothing is pruned)"""
    seen, unknown = set(), False
    n_inner = 0
    for p in its:
        if p.leaf is not False:
            continue
        n_inner += 1
        ps = p.pushes()
        if ps is None:
            unknown = True
            continue
        for ev, v in ps:
            c = p.child(v)
            if c is None:
                unknown = True
            else:
                seen.add(c)
    if n_inner == 0 or unknown:
        V.und(key, "C11-S1", f"how {what} queues the children of an inner node is not recognised")
    elif seen != {"left", "right"}:
        V.fail(key, "C11-S1", f"{what} never queues the {' / '.join(sorted({'left', 'right'} - seen))} child of a visited inner node",
               "a child that is not queued hides all the points of its subtree")
    else:
        V.ok(key, "C11-S1", "both children can be queued")


# ================================================================================================== k nearest neighbours
def knn(ctx, root_id):
    rules = ("C11-K1", "C11-S1", "C11-H1", "C11-O1")
    t = traversal(ctx, "KDTree.query", rules, core=None)
    if t is None:
        return
    fn, site, ex, paths, its = t
    ps = au.params(fn, skip_self=True)
    if len(ps) < 2:
        for r in rules:
            ctx.undecided(r, site, "query(point, k) signature not recognised")
        return
    pt, k = ps[0], ps[1]
    core = {pt, k}
    paths = [p for p in paths if default_only(fn, p.st, core)]
    its = [p for p in its if default_only(fn, p.st, core)]
    V = Verdicts(ctx, site)
    check_start(V, its, root_id, "query")
    if any(p.leaf is None for p in its):
        V.und("branch", "C11-S1", "the test separating leaves from inner nodes (isinstance(self.nodes[id], KDTree.Leaf)) is not recognised in query")
        V.flush()
        return
    # ---------------- the candidate heap
    H = None
    for p in its:
        for ev in S.calls(p.st, tail="push"):
            if S.tok_name(ev.recv) and isinstance(ex.origin(ev.recv), ast.Call) and au.call_tail(ex.origin(ev.recv)) == "PriorityQueue":
                H = au.src(ev.recv)
    if H is None:
        for r, key in (("C11-H1", "heap"), ("C11-K1", "bound")):
            V.und(key, r, "candidate heap (a PriorityQueue filled with push) not recognised in query")
        check_children(V, its, "query")
        V.flush()
        return
    X = "self.points"

    def heap_events(p, after=-1, upto=None):
        push = pop = 0
        for ev in p.st.events:
            if ev.kind == "call" and ev.recv is not None and au.src(ev.recv) == H and num(ev.tok) > after and (upto is None or ev.nconds <= upto) \
                    and p.inside(ev):
                if ev.tail == "push":
                    push += 1
                elif ev.tail in HEAP_POP:
                    pop += 1
        return push, pop

    # ---------------- counter(s): loop-carried values compared with k
    def counter_of(e):
        """(token, offset) when e is `<carried counter> + const`"""
        p_ = L.to_poly(e)
        if p_ is None:
            return None
        toks = [a for a in p_.atoms() if a.startswith("$v")]
        if len(toks) != 1 or not (p_.without(toks[0])).is_const() or p_.coeff(toks[0]) != sym.Poly.const(1):
            return None
        return toks[0]

    counter_names = set()
    for p in its:
        for e, pol, kind in S.flat_conds(p.st):
            if isinstance(e, ast.Compare) and len(e.ops) == 1 and k in {n.id for n in ast.walk(e) if isinstance(n, ast.Name)}:
                for side in (e.left, e.comparators[0]):
                    t_ = counter_of(side)
                    if t_ and ex.toks[t_][0] == "carried":
                        counter_names.add(ex.toks[t_][1][0])
    cname = sorted(counter_names)[0] if len(counter_names) == 1 else None

    # ---------------- or: the number of candidates is read from the heap itself (`heap.size`, `len(heap.data)`, `len(heap)`)
    size_atom = None
    if cname is None:
        size_atom = heap_size_atom(ex, its, H, k)

    def cur(p):
        if cname is None:
            return None
        return p.st.heap.get(cname) if cname.startswith("self.") else p.st.locals.get(cname)

    def held(p, upto):
        """polynomial of the number of candidates held when condition number `upto` was evaluated (counter in lock-step assumed)"""
        if size_atom is not None:
            occ = [(j, n_) for j, c in enumerate(p.st.conds[:(upto + 1 if upto is not None else None)]) for n_ in ast.walk(c[0]) if size_atom(n_)]
            if not occ:
                return None, None
            j, node_ = occ[-1]
            for ev in p.st.events:
                if ev.kind == "call" and ev.recv is not None and au.src(ev.recv) == H and ev.tail in ("push",) + HEAP_POP \
                        and ev.nconds > j and (upto is None or ev.nconds <= upto):
                    return None, None
            return sym.Poly.atom(L.atom_name(node_)), L.atom_name(node_)
        v = cur(p)
        t_ = counter_of(v) if v is not None else None
        if t_ is None:
            return None, None
        push, pop = heap_events(p, after=num(t_), upto=upto)
        return sym.Poly.atom(t_) + (push - pop), t_

    # ---------------- C11-S1 / C11-H1 leaf side
    for p in its:
        if not p.leaf:
            continue
        pushes = [ev for ev in S.calls(p.st, tail="push", recv=H)]
        loops_over = [c for c in p.st.conds if c[3] == "loop" and au.src(c[0]) == f"{p.node}.points"]
        sliced = [c for c in p.st.conds if c[3] == "loop" and isinstance(c[0], ast.Subscript)
                  and isinstance(c[0].slice, ast.Slice) and au.src(c[0].value) == f"{p.node}.points"]
        if sliced:
            V.fail("leafpush", "C11-S1", "query iterates over a slice of the visited leaf's points instead of all of them",
                   "every point of a visited leaf is a candidate neighbour")
            continue
        if not loops_over:
            V.und("leafpush", "C11-S1", "the loop over the points of a visited leaf is not recognised in query")
            continue
        for ev in pushes:
            if len(ev.args) != 2 or ev.kwargs:
                V.und("prio", "C11-H1", "arguments of the heap push not recognised")
                continue
            idx, pr = ev.args
            it = ex.toks.get(S.tok_name(idx) or "", (None, None))
            if it[0] != "elem" or ex.text(it[1]) != ex.text(loops_over[0][0]):
                V.und("leafpush", "C11-S1", "the element pushed on the candidate heap is not the index taken from the leaf's points")
                continue
            # the push is unconditional inside the loop over the points
            li = next(i for i, c in enumerate(p.st.conds) if c is loops_over[0])
            between = [c for c in p.st.conds[li + 1:ev.nconds] if c[3] in ("if", "ifexp") and S.controls(c, ev.node)]
            if between:
                V.und("leafpush", "C11-S1", "candidates are pushed on the heap under a condition", "cannot tell whether a nearer point may be left out")
            else:
                V.ok("leafpush", "C11-S1", "every point of a visited leaf is offered to the heap")
            o = ex.expand(pr)
            dcalls = [c for c in ast.walk(o) if isinstance(c, ast.Call) and au.call_tail(c) == "distance"]
            good_d = len(dcalls) == 1 and len(dcalls[0].args) == 2 and not dcalls[0].keywords and \
                {au.src(a) for a in dcalls[0].args} == {f"{X}[{au.src(ex.expand(idx))}]", pt}
            if not good_d:
                V.und("prio", "C11-H1", "the priority of a candidate is not computed by distance(self.points[index], query point)")
                continue
            pl = sym.to_poly(o, atom_of=lambda n: "D" if n is dcalls[0] else None)
            if pl == -sym.Poly.atom("D"):
                V.ok("prio", "C11-H1", "priority is the negated point distance")
            elif pl == sym.Poly.atom("D"):
                V.fail("prio", "C11-H1", "candidates are pushed with priority +distance instead of -distance",
                       "the queue is a min-heap: only the negated distance keeps the *furthest* candidate at the front, which is the one "
                       "to drop when more than k are held")
            else:
                V.und("prio", "C11-H1", "the priority of a candidate is not +/- its distance")
    # ---------------- C11-H1 counter in lock-step with the heap
    if cname is None and size_atom is not None:
        V.ok("lockstep", "C11-H1", "the number of candidates is read from the heap itself")
    elif cname is None:
        V.und("lockstep", "C11-H1", "the number of candidates held is not tracked by a counter compared with k",
              "trimming to k and the pruning bound are stated on that counter")
    else:
        for p in its:
            v = cur(p)
            t_ = counter_of(v) if v is not None else None
            if t_ is None:
                V.und("lockstep", "C11-H1", "value of the candidate counter at the end of an iteration not recognised")
                continue
            delta = (L.to_poly(v) - sym.Poly.atom(t_)).const_value()
            push, pop = heap_events(p, after=num(t_))
            if delta == push - pop:
                V.ok("lockstep", "C11-H1", "counter moves with push / pop")
            else:
                V.fail("lockstep", "C11-H1", "the candidate counter is not kept in lock-step with the heap (one more per push, one less per pop)",
                       f"on a path with {push} push(es) and {pop} pop(s) the counter changes by {delta}: the number of held candidates drives "
                       "the trimming, the pruning bound and the final read-out")
        # initial value
        p0 = [q for q in paths if q.R is None] or paths
        v0 = None
        for q in paths:
            for tok, (kind, payload) in ex.toks.items():
                if kind == "carried" and payload[0] == cname and not any(isinstance(n_, ast.Name) and n_.id.startswith("$v") for n_ in ast.walk(payload[1])):
                    v0 = payload[1]
        if v0 is not None and au.const(ex.expand(v0)) == 0:
            V.ok("counter0", "C11-H1", "counter starts at 0")
        elif v0 is not None and isinstance(v0, ast.Attribute):
            V.fail("counter0", "C11-H1", "the candidate counter is instance state that query does not reset",
                   "a second query starts with the count left by the first one")
        elif v0 is not None and isinstance(au.const(ex.expand(v0)), int):
            V.fail("counter0", "C11-H1", f"the candidate counter starts at {au.const(ex.expand(v0))} with an empty heap", "")
        else:
            V.und("counter0", "C11-H1", "initial value of the candidate counter not recognised")
    # ---------------- C11-O1 trimming test
    if cname is not None or size_atom is not None:
        n_trim = 0
        for p in its:
            if not p.leaf:
                continue
            for i, (e, pol, node, kind) in enumerate(p.st.conds):
                w = au.parent(node)
                if kind in ("loop", "loop-exit") and isinstance(w, ast.While):
                    if not any(ev.tail in HEAP_POP and len(ev.loops) >= 2 and ev.loops[-1][0] == id(w) and q.inside(ev) for q in its for ev in S.calls(q.st, recv=H)):
                        continue
                elif kind == "if" and isinstance(w, ast.If) and i > (p.leaf_cond or 0):
                    inside_if = lambda n_: any(a is w for a in au.ancestors(n_))
                    if not any(ev.tail in HEAP_POP and q.inside(ev) and inside_if(ev.node) for q in its for ev in S.calls(q.st, recv=H)):
                        continue
                    if not any(isinstance(n_, ast.Name) and n_.id == k for n_ in ast.walk(e)):
                        continue
                else:
                    continue
                hp, t_ = held(p, i)
                # held at that time: events before this condition
                v = cur(p)
                if hp is None:
                    continue
                n_trim += 1
                # value of the counter when the test was evaluated = carried + (push - pop so far)
                try:
                    w1 = L.witness([(e, True)], lambda env, hp=hp: hp.eval(env) > env[k], extra_syms=(k,) + tuple(hp.atoms()))
                    w2 = L.witness([(e, False)], lambda env, hp=hp: not (hp.eval(env) > env[k]), extra_syms=(k,) + tuple(hp.atoms()))
                    if w1 is None and w2 is None:
                        V.ok("trim", "C11-O1", "heap trimmed exactly while more than k candidates are held")
                    elif w1 is None and any(isinstance(v_, bool) for v_ in w2.values()):
                        V.und("trim", "C11-O1", "the heap trimming test involves something else than the number of candidates held and k")
                    else:
                        V.fail("trim", "C11-O1", "the heap trimming test is not `held > k`",
                               f"differs from `held > k` for held={hp.eval(w1 or w2)}, k={(w1 or w2)[k]}: the query returns a number of points other than min(k, n)")
                except (L.TooBig, KeyError):
                    V.und("trim", "C11-O1", "heap trimming test is not a comparison of the counter with k")
        if n_trim == 0:
            V.und("trim", "C11-O1", "trimming of the candidate heap (pop while more than k are held) not recognised in query")
    # ---------------- inner nodes: pruning
    knn_inner(V, ex, its, H, k, pt, held, cname or size_atom)
    check_children(V, its, "query")
    # ---------------- result
    knn_result(V, ex, paths, H, k, cur, cname, size_atom)
    V.flush()


def heap_size_atom(ex, its, H, k):
    """predicate recognising the expressions that denote the current number of items of the heap H (`H.size` for a property returning
    len(self.data), `len(H.data)`, `len(H)`), when such an expression is compared with k; None otherwise"""
    from .hg_pq import PQM as _PQM, PQC as _PQC
    cands = set()
    for p in its:
        for e, pol, kind in S.flat_conds(p.st):
            if isinstance(e, ast.Compare) and len(e.ops) == 1 and k in {n.id for n in ast.walk(e) if isinstance(n, ast.Name)}:
                for side in (e.left, e.comparators[0]):
                    if isinstance(side, ast.Attribute) and au.src(side.value) == H:
                        cands.add(("attr", side.attr, au.src(side)))
                    o = ex.origin(side) if ex.kind(side) == "call" else None
                    if isinstance(o, ast.Call) and au.call_tail(o) == "len" and len(o.args) == 1 and au.src(o.args[0]) in (H, f"{H}.data"):
                        cands.add(("len", au.src(o.args[0]), au.src(side)))
    ok_attrs, ok_len = set(), False
    for kind, name, text in sorted(cands):
        if kind == "len":
            ok_len = True
        if kind == "attr":
            try:
                cls = ex.repo.cls(_PQM, _PQC)
                m = next((s_ for s_ in cls.body if isinstance(s_, ast.FunctionDef) and s_.name == name and S.Exec.is_property(s_)), None)
                if m is None:
                    continue
                ex2 = S.Exec(ex.repo, _PQM, _PQC, fields_by_name=True)
                sts = [s_ for s_ in ex2.run(m) if s_.end != "raise"]
                if len(sts) == 1 and sts[0].ret is not None and ex2.text(sts[0].ret) == "len(self.data)":
                    ok_attrs.add(name)
            except Exception:
                continue
    if not ok_attrs and not ok_len:
        return None

    def is_size(n_):
        if isinstance(n_, ast.Attribute) and au.src(n_.value) == H and n_.attr in ok_attrs:
            return True
        o = ex.origin(n_) if ex.kind(n_) == "call" else (n_ if isinstance(n_, ast.Call) else None)
        return ok_len and isinstance(o, ast.Call) and au.call_tail(o) == "len" and len(o.args) == 1 and au.src(o.args[0]) in (H, f"{H}.data")
    return is_size


def prune_compares(p, e):
    """the comparisons inside `e` that have the distance of a node's box on exactly one side"""
    return [c_ for c_ in ast.walk(e) if isinstance(c_, ast.Compare) and len(c_.ops) == 1
            and (p.box_dist(c_.left) is None) != (p.box_dist(c_.comparators[0]) is None)]


def knn_inner(V, ex, its, H, k, pt, held, cname):
    front = f"{H}.front.priority"
    # ---- what each inner-node path decides for each child: (tests on the child's own box as they hold on the path, queued or not)
    decisions = {"left": [], "right": []}
    for p in its:
        if p.leaf is not False:
            continue
        ps = p.pushes()
        if ps is None:
            V.und("pair", "C11-S1", "how query queues the children of an inner node is not recognised")
            continue
        own = {"left": [], "right": []}
        for i, (e, pol, node, kind) in enumerate(p.st.conds):
            if p.leaf_cond is not None and i <= p.leaf_cond or kind not in ("if", "ifexp", "compr"):
                continue
            inner = prune_compares(p, e)
            if len(inner) != 1:
                if len(inner) > 1:
                    V.und("pair", "C11-S1", "a pruning test of query compares several box distances at once")
                continue
            c_ = inner[0]
            sides = [c_.left, c_.comparators[0]]
            di = 0 if p.box_dist(sides[0]) is not None else 1
            node_expr, call = p.box_dist(sides[di])
            which = p.child(node_expr)
            if which is None:
                V.und("pair", "C11-S1", "a pruning test of query measures the box of something else than a child of the visited node")
                continue
            if len(call.args) != 1 or call.keywords or au.src(call.args[0]) != pt:
                V.und("pair", "C11-S1", "arguments of the box distance not recognised")
            own[which].append((e, pol, sides[di], sides[1 - di]))
        for c in ("left", "right"):
            pushed = any(p.child(v) == c for ev, v in ps)
            decisions[c].append((tuple((au.src(e), pol) for e, pol, _, _ in own[c]), pushed, own[c], p))
    for c in ("left", "right"):
        ds = decisions[c]
        if not ds:
            continue
        # is the decision about this child a function of the tests on its own box ?
        by_test = {}
        for key, pushed, own, p in ds:
            by_test.setdefault(key, set()).add(pushed)
        ungoverned = any(len(v) > 1 for v in by_test.values())
        for key, pushed, own, p in ds:
            if pushed:
                continue
            if not own:
                if any(pu for _, pu, _, _ in ds):
                    V.fail("pair", "C11-S1", "in query a child is queued or skipped according to the box distance of its sibling",
                           "a child is left out on a path where its own box was not judged: pruning a child with the sibling's distance skips "
                           "subtrees that hold nearer points")
                continue
            justified = False
            unsupported = False
            for e, pol, dist_tok, bound in own:
                try:
                    spec = ast.Compare(left=dist_tok, ops=[ast.GtE()], comparators=[bound])
                    if implies_ast(e if pol else ast.UnaryOp(op=ast.Not(), operand=e), spec) is None:
                        justified = True
                except order.Unsupported:
                    unsupported = True
            if justified:
                V.ok("noskip", "C11-K1", "a child closer than the bound is never skipped")
            elif unsupported:
                V.und("noskip", "C11-K1", "pruning test of query is not a comparison of the bound with the box distance")
            elif ungoverned:
                V.fail("pair", "C11-S1", "in query a child is queued or skipped according to the box distance of its sibling",
                       "the decision about a child does not follow the test on its own box: pruning a child with the sibling's distance skips "
                       "subtrees that hold nearer points")
            else:
                V.fail("noskip", "C11-K1", "a child is skipped although its box is closer than the current worst candidate",
                       "the test skips a child whose box distance is smaller than the bound: it may hold a nearer point and must be visited")
        if not ungoverned and any(own for _, _, own, _ in ds):
            V.ok("pair", "C11-S1", "each child judged by its own box distance")
    # ---- the bound used by the pruning tests
    for p in its:
        if p.leaf is not False:
            continue
        for i, (e, pol, node, kind) in enumerate(p.st.conds):
            if p.leaf_cond is not None and i <= p.leaf_cond or kind not in ("if", "ifexp", "compr"):
                continue
            inner = prune_compares(p, e)
            if len(inner) != 1:
                continue
            c_ = inner[0]
            sides = [c_.left, c_.comparators[0]]
            di = 0 if p.box_dist(sides[0]) is not None else 1
            bound = sides[1 - di]
            # --- the bound
            if is_inf(ex, bound):
                continue
            car = ex.carried(bound)
            if car is not None or (isinstance(bound, ast.Attribute) and au.is_self_attr(bound)):
                loc = car[0] if car else au.src(bound)
                init = car[1] if car else bound
                if isinstance(init, ast.Attribute) and au.is_self_attr(init) or ex.carried(init) is None and not is_inf(ex, init) and not S.tok_name(init):
                    V.fail("bound", "C11-K1", "the pruning bound is instance state that query does not reset to +infinity before the search",
                           "a second query starts with the bound left by the previous one: subtrees are pruned before k candidates are held "
                           "(fewer than min(k, n) results, or not the nearest ones)")
                elif is_inf(ex, init):
                    check_carried_bound(V, ex, its, loc, H, k, held)
                else:
                    V.und("bound", "C11-K1", "initial value of the pruning bound not recognised")
                continue
            pl = None
            try:
                pl = sym.to_poly(bound, atom_of=lambda n: "F" if au.src(n) == front else None, opaque=False)
            except sym.NotPoly:
                pass
            if pl is None or not (pl == -sym.Poly.atom("F") or pl == sym.Poly.atom("F")):
                V.und("bound", "C11-K1", "the finite pruning bound is not read from the front of the candidate heap")
                continue
            if pl == sym.Poly.atom("F"):
                V.fail("boundsign", "C11-K1", "the finite pruning bound is the priority of the heap front, not its negation",
                       "priorities are negated distances: the current worst candidate distance is -front.priority")
            else:
                V.ok("boundsign", "C11-K1", "bound is -front.priority")
            finite_bound(V, ex, p, i, k, held, cname)


def implies_ast(code, spec):
    """None when `code` implies `spec` under every ordering of their leaves (leaves named by their source), else a witness"""
    def leaf(n):
        if isinstance(n, ast.BinOp):
            raise order.Unsupported(au.src(n))
        return au.src(n)
    pc = order.Pred(leaf).collect(code)
    ps = order.Pred(leaf).collect(spec)
    for env in order.envs(pc.symbols | ps.symbols, pc.consts | ps.consts):
        if pc.eval(code, env) and not ps.eval(spec, env):
            return env
    return None


def finite_bound(V, ex, p, upto, k, held, cname):
    """the bound is finite on this path: its conditions must imply that k candidates are held"""
    hp, t_ = held(p, upto) if cname is not None else (None, None)
    conds = [(e, pol) for e, pol, kind in S.flat_conds(p.st, upto=upto)]
    if hp is None:
        # no counter: accept a direct test on the size of the heap
        V.und("bound", "C11-K1", "the number of candidates held when the bound is finite cannot be read (no counter compared with k)")
        return
    try:
        w = L.witness(conds, lambda env: hp.eval(env) >= env[k], extra_syms=(k,) + tuple(hp.atoms()), only=(k,) + tuple(hp.atoms()))
    except L.TooBig:
        V.und("bound", "C11-K1", "conditions under which the pruning bound is finite are too complex")
        return
    if w is None:
        V.ok("bound", "C11-K1", "finite bound only when k candidates are held")
    else:
        V.fail("bound", "C11-K1", "the pruning bound is finite although fewer than k candidates may be held",
               f"e.g. held={hp.eval(w)}, k={w[k]}: the bound is the current worst candidate as soon as ONE candidate is held, so a subtree is pruned although "
               "fewer than k candidates were found (small leaves, k larger than a leaf: fewer than min(k, n) results or not the nearest ones)")


def check_carried_bound(V, ex, its, loc, H, k, held):
    """a bound kept across iterations, initially +inf: every assignment must be `-front.priority` under conditions implying held >= k"""
    n = 0
    for p in its:
        for ev in p.st.events:
            if ev.kind in ("store", "aug") and au.src(ev.target) == loc and p.inside(ev):
                n += 1
                if is_inf(ex, ev.value):
                    continue
                finite_bound(V, ex, p, ev.nconds, k, held, True)
    if n == 0:
        V.und("bound", "C11-K1", "assignments of the loop-carried pruning bound not recognised")


# --------------------------------------------------------------------------------------------------- result of query
def seq_form(ex, e, depth=0):
    """normal form of the returned sequence: (count expr, element expr over '$item' = one heap pop, reversed?, drained?) or None.
    Recognises comprehensions over range(n) popping the heap, maps over such a list, [::-1] / reversed() / list()."""
    if depth > 6:
        return None
    o = e
    if isinstance(o, ast.Subscript) and isinstance(o.slice, ast.Slice) and o.slice.lower is None and o.slice.upper is None and au.const(o.slice.step) == -1:
        r = seq_form(ex, o.value, depth + 1)
        return None if r is None else (r[0], r[1], not r[2])
    k = ex.kind(o)
    if k is None and isinstance(o, ast.Call) and not o.keywords:       # a call written inside a comprehension (kept as syntax)
        k, c = "call", o
    elif k == "call":
        c = ex.origin(o)
    if k == "call":
        t = au.call_tail(c)
        if t in ("list", "tuple") and len(c.args) == 1:
            return seq_form(ex, c.args[0], depth + 1)
        if t == "reversed" and len(c.args) == 1:
            r = seq_form(ex, c.args[0], depth + 1)
            return None if r is None else (r[0], r[1], not r[2])
        return None
    if k == "display":
        d = ex.origin(o)
        if isinstance(d, (ast.ListComp, ast.GeneratorExp)) and len(d.generators) == 1 and not d.generators[0].ifs:
            g = d.generators[0]
            if isinstance(g.iter, ast.Call) and au.call_tail(g.iter) == "range" and len(g.iter.args) == 1:
                return (g.iter.args[0], d.elt, False)
            if isinstance(g.target, ast.Name):
                r = seq_form(ex, g.iter, depth + 1)
                if r is None:
                    return None
                return (r[0], sym.subst(d.elt, {g.target.id: r[1]}), r[2])
    return None


def knn_result(V, ex, paths, H, k, cur, cname, size_atom=None):
    from ..core import AnalysisError
    try:
        item = ex.repo.cls(PQM, "PriorityItem")
        fields = [s.target.id for s in item.body if isinstance(s, ast.AnnAssign) and isinstance(s.target, ast.Name)]
    except AnalysisError:
        fields = ["x", "priority"]
    payload = [f for f in fields if f != "priority"]
    for p in paths:
        if p.st.end != "return" or p.st.ret is None:
            V.und("result", "C11-H1", "query has a path that returns nothing")
            continue
        ret = p.st.ret
        revents = [ev for ev in p.st.events if ev.kind == "return"]
        if revents and revents[-1].loops and len(revents[-1].stack) == 1:
            V.und("result", "C11-H1", "query returns from inside the search loop")
            continue
        if isinstance(ret, ast.Tuple):
            V.und("result", "C11-H1", "query returns a tuple on its default path")
            continue
        f = seq_form(ex, ret)
        if f is not None:
            count, elt, rev = f
            base_tok = ret
            while isinstance(base_tok, ast.Subscript):
                base_tok = base_tok.value
            if S.tok_name(base_tok):
                # in-place reversals of the list that is returned
                n_inplace = len(S.calls(p.st, tail="reverse", recv=base_tok.id))
                other_mut = [ev for ev in S.calls(p.st, recv=base_tok.id) if ev.tail in S.MUTATING and ev.tail != "reverse"]
                if other_mut:
                    V.und("result", "C11-H1", "the list read out of the candidate heap is modified before it is returned")
                    continue
                rev = rev != (n_inplace % 2 == 1)
            pops = [c for c in ast.walk(elt) if isinstance(c, ast.Call) and isinstance(c.func, ast.Attribute) and au.src(c.func.value) == H
                    and c.func.attr in HEAP_POP]
            elt_ok = len(pops) == 1 and isinstance(elt, ast.Attribute) and elt.value is pops[0] and elt.attr in payload
            cv = cur(p)
            cnt_ok = (cv is not None and ex.text(count) == ex.text(cv)) or (size_atom is not None and size_atom(count))
            if elt_ok and cnt_ok and rev:
                V.ok("result", "C11-H1", "heap popped `held` times, payload read, reversed")
            elif elt_ok and cnt_ok and not rev:
                V.fail("result", "C11-H1", "the candidates popped from the heap are returned without being reversed",
                       "the heap hands out the furthest candidate first: the result must be reversed to give non-decreasing distances")
            elif elt_ok and rev and ex.text(count) == k:
                V.fail("result", "C11-H1", "the result pops k items from the heap whatever the number of candidates held",
                       "with fewer than k points in the tree the heap is popped empty: IndexError instead of min(k, n) results")
            elif len(pops) == 1 and isinstance(elt, ast.Attribute) and elt.value is pops[0] and elt.attr == "priority":
                V.fail("result", "C11-H1", "the result reads the priority of the popped candidates instead of their payload", "indices of points are expected")
            else:
                V.und("result", "C11-H1", "read-out of the candidate heap not recognised")
            continue
        # drain loop: while not heap.empty(): out.append(heap.pop().x) ; out.reverse()
        t = S.tok_name(ret)
        rev = False
        base = ret
        if isinstance(ret, ast.Subscript) and isinstance(ret.slice, ast.Slice) and au.const(ret.slice.step) == -1 and ret.slice.lower is None and ret.slice.upper is None:
            base, rev = ret.value, True
            t = S.tok_name(base)
        if t and ex.kind(base) == "display":
            apps = [ev for ev in S.calls(p.st, tail="append", recv=t)]
            others = [ev for ev in S.calls(p.st, recv=t) if ev.tail not in ("append", "reverse")]
            revs = [ev for ev in S.calls(p.st, tail="reverse", recv=t)]
            def is_empty_test(c):
                t_, pol_ = au.strip_not(c[0], c[1])
                o_ = ex.origin(t_) if ex.kind(t_) == "call" else None
                # the loop is left when heap.empty() is true
                return isinstance(o_, ast.Call) and au.src(o_.func) == f"{H}.empty" and pol_ and c[3] in ("loop", "loop-exit")
            drained = any(is_empty_test(c) for c in p.st.conds)
            # or: one pop per unit of the counter, `for _ in range(held): out.append(heap.pop().x)`
            cv = cur(p)
            for c in p.st.conds:
                o_ = ex.origin(c[0]) if ex.kind(c[0]) == "call" else None
                if c[3] == "loop" and isinstance(o_, ast.Call) and au.call_tail(o_) == "range" and len(o_.args) == 1 and cv is not None \
                        and ex.text(o_.args[0]) == ex.text(cv):
                    drained = True
            if not apps and cv is not None and not any(is_empty_test(c) for c in p.st.conds):
                # zero iterations of the read-out loop on this path: nothing to judge
                drained = any(c[3] == "loop" and isinstance(ex.origin(c[0]) if ex.kind(c[0]) == "call" else None, ast.Call)
                              and au.call_tail(ex.origin(c[0])) == "range" for c in p.st.conds) or drained
            zero = not apps
            good = all(len(ev.args) == 1 and isinstance(ev.args[0], ast.Attribute) and ev.args[0].attr in payload and S.tok_name(ev.args[0].value)
                       and isinstance(ex.origin(ev.args[0].value), ast.Call) and au.src(ex.origin(ev.args[0].value).func.value) == H
                       and au.call_tail(ex.origin(ev.args[0].value)) in HEAP_POP and ev.loops for ev in apps)
            n_rev = len(revs) + (1 if rev else 0)
            stores = [ev for ev in p.st.events if ev.kind in ("store", "aug", "del") and isinstance(ev.target, ast.Subscript) and au.src(ev.target.value) == t]
            if others or not good or not drained or stores or not apps and ex.origin(base) is not None and not (
                    isinstance(ex.origin(base), ast.List) and not ex.origin(base).elts):
                V.und("result", "C11-H1", "read-out of the candidate heap not recognised")
            elif n_rev % 2 == 1 and all(num(r.tok) > max([num(a.tok) for a in apps] or [0]) for r in revs):
                V.ok("result", "C11-H1", "heap drained, payload read, reversed")
            elif n_rev == 0:
                V.fail("result", "C11-H1", "the candidates popped from the heap are returned without being reversed",
                       "the heap hands out the furthest candidate first: the result must be reversed to give non-decreasing distances")
            else:
                V.und("result", "C11-H1", "read-out of the candidate heap not recognised")
            continue
        V.und("result", "C11-H1", "read-out of the candidate heap not recognised")


# ================================================================================================== radius query
def radius(ctx, root_id):
    rules = ("C11-O1", "C11-S1")
    t = traversal(ctx, "KDTree.query_radius", rules, core=None)
    if t is None:
        return
    fn, site, ex, paths, its = t
    ps = au.params(fn, skip_self=True)
    if len(ps) < 2:
        for r_ in rules:
            ctx.undecided(r_, site, "query_radius(point, r) signature not recognised")
        return
    pt, r = ps[0], ps[1]
    core = {pt, r}
    paths = [p for p in paths if default_only(fn, p.st, core)]
    its = [p for p in its if default_only(fn, p.st, core)]
    V = Verdicts(ctx, site)
    check_start(V, its, root_id, "query_radius")

    def sym_r(n):
        if isinstance(n, ast.Name) and n.id == r:
            return "r"
        if isinstance(n, ast.BinOp):
            raise order.Unsupported(au.src(n))
        return au.src(n)

    # ---------------- pruning: a node is left unexplored only when its box is further than r
    n_prune = 0
    child_tests = {}
    for p in paths:
        for i, (e, pol, kind) in enumerate([(c[0], c[1], c[3]) for c in p.st.conds]):
            if not (isinstance(au.strip_not(e, pol)[0], ast.Compare)):
                continue
            e2, pol2 = au.strip_not(e, pol)
            if len(e2.ops) != 1:
                continue
            sides = [e2.left, e2.comparators[0]]
            probe = p if p.R is not None else (its[0] if its else p)
            bd = [probe.box_dist(s_) for s_ in sides]
            if (bd[0] is None) == (bd[1] is None):
                continue
            di = 0 if bd[0] is not None else 1
            dist_tok, other = sides[di], sides[1 - di]
            node_expr, call = bd[di]
            n_prune += 1
            if len(call.args) != 1 or call.keywords or au.src(call.args[0]) != pt:
                V.und("prunearg", "C11-S1", "arguments of the box distance in query_radius not recognised")
                continue
            # which node is judged, and is it explored on this path ?
            explored = None
            if p.R is not None and (au.src(node_expr) == p.P):
                later = [ev for ev in p.st.events if ev.nconds > i and p.inside(ev) and ev.kind == "call"]
                explored = bool(later) or (p.leaf_cond is not None and p.leaf_cond > i)
            elif p.R is not None and p.child(node_expr) is not None:
                child_tests.setdefault((id(p), p.child(node_expr)), []).append((e2, pol2, dist_tok, other, p))
                continue
            elif isinstance(au.const(ex.expand(node_expr)), int):
                explored = any(c[3] in ("loop", "loop-exit") for c in p.st.conds[i + 1:])
            if explored is None:
                V.und("prune", "C11-O1", "which node a pruning test of query_radius judges is not recognised")
                continue
            if not isinstance(other, ast.Name) or other.id != r:
                V.und("prune", "C11-O1", "a pruning test of query_radius does not compare the box distance with the radius itself")
                continue
            if explored:
                continue
            try:
                res = U.relate(e2 if pol2 else ast.UnaryOp(op=ast.Not(), operand=e2), "dist > r",
                               lambda n, d=au.src(dist_tok): "dist" if au.src(n) == d else sym_r(n))
                if res["code_not_spec"] is None:
                    V.ok("prune", "C11-O1", "a node is skipped only when its box distance exceeds r")
                else:
                    V.fail("prune", "C11-O1", "query_radius leaves a node unexplored under a condition that does not imply box distance > r",
                           f"for {res['code_not_spec']} the box may hold a point at distance <= r (a point exactly at distance r lying on the box border is lost)")
            except order.Unsupported:
                V.und("prune", "C11-O1", "pruning test of query_radius is not a comparison of the box distance with r")
    # an answer given before the traversal starts, under a condition on the radius alone, is right only for negative radii
    for p in paths:
        if p.R is not None or p.st.end != "return" or any(c[3] in ("loop", "loop-exit") for c in p.st.conds):
            continue
        conds = [(c[0], c[1]) for c in p.st.conds if c[3] in ("if", "ifexp")]
        if not conds or any({n.id for n in ast.walk(e) if isinstance(n, ast.Name)} != {r} or any(isinstance(n, ast.Call) for n in ast.walk(e)) for e, _ in conds):
            continue
        try:
            res = U.relate(U.conj(conds), "r < 0", sym_r)
            if res["code_not_spec"] is None:
                V.ok("early", "C11-O1", "early answer only for a negative radius")
            else:
                V.fail("early", "C11-O1", "query_radius answers without searching under a condition on the radius that a valid radius can satisfy",
                       f"for {res['code_not_spec']} points at distance <= r may exist (a radius of 0 still contains the points equal to the query point)")
        except order.Unsupported:
            pass
    # children judged when they are about to be queued: a child that is not queued on a path must be justified by a test on its own box
    decisions = {"left": [], "right": []}
    for p in its:
        if p.leaf is not False:
            continue
        ps_ = p.pushes()
        if ps_ is None:
            continue
        for c in ("left", "right"):
            own = child_tests.get((id(p), c), [])
            decisions[c].append((any(p.child(v) == c for ev, v in ps_), own, p))
    any_child_test = bool(child_tests)
    plane_used = radius_plane(V, ctx, ex, its, pt, r, decisions)
    for c in ("left", "right"):
        ds = decisions[c]
        for pushed, own, p in ds:
            if pushed or not any_child_test or plane_used:
                continue
            if not own:
                if any(pu for pu, _, _ in ds):
                    V.fail("rpair", "C11-S1", "in query_radius a child is queued or skipped according to the box distance of its sibling",
                           "a child is left out on a path where its own box was not judged: a node must be judged by its own box")
                continue
            justified, unsupported, bad_operand = False, False, False
            for e2, pol2, dist_tok, other, _p in own:
                if not isinstance(other, ast.Name) or other.id != r:
                    bad_operand = True
                    continue
                try:
                    res = U.relate(e2 if pol2 else ast.UnaryOp(op=ast.Not(), operand=e2), "dist > r",
                                   lambda n, d=au.src(dist_tok): "dist" if au.src(n) == d else sym_r(n))
                    justified = justified or res["code_not_spec"] is None
                except order.Unsupported:
                    unsupported = True
            if justified:
                V.ok("prune", "C11-O1", "a node is skipped only when its box distance exceeds r")
            elif unsupported or bad_operand:
                V.und("prune", "C11-O1", "a pruning test of query_radius is not a comparison of the box distance with the radius itself")
            else:
                V.fail("prune", "C11-O1", "query_radius leaves a node unexplored under a condition that does not imply box distance > r",
                       "the box may hold a point at distance <= r (a point exactly at distance r lying on the box border is lost)")
    if n_prune == 0:
        V.ok("prune", "C11-O1", "query_radius does not prune (every node is visited)")
    # ---------------- both children
    def inert(p):
        return not any(p.inside(ev) and ((ev.kind == "call" and ev.tail in set(PUSH) | {"add", "push", "insert"}) or ev.kind in ("store", "aug"))
                       for ev in p.st.events)
    if any(p.leaf is None and not inert(p) for p in its) or not any(p.leaf is not None for p in its):
        V.und("branch", "C11-S1", "the test separating leaves from inner nodes is not recognised in query_radius")
        V.flush()
        return
    check_children(V, its, "query_radius", key="rboth")
    # children are queued unless pruned by their own box: a push guarded by something else is not recognised
    for p in its:
        if p.leaf is not False:
            continue
        pushes = p.pushes()
        for ev, v in (pushes or []):
            if ev is None:
                continue
            for e, pol, _, kind in p.st.conds[(p.leaf_cond or 0) + 1:ev.nconds]:
                if kind in ("if", "ifexp", "compr"):
                    e2, _ = au.strip_not(e, pol)
                    ok_g = (isinstance(e2, ast.Compare) and any(p.box_dist(s_) is not None for s_ in [e2.left] + list(e2.comparators))) \
                        or f"{p.node}.split_value" in au.src(e2)
                    if not ok_g:
                        V.und("rguard", "C11-S1", "query_radius queues a child under a condition that is not a box-distance test")
    # ---------------- the filter of a visited leaf
    radius_filter(V, ex, its, pt, r, sym_r)
    # ---------------- no early return
    for p in its:
        for ev in p.st.events:
            if ev.kind == "return" and ev.loops and len(ev.stack) == 1:
                V.und("early", "C11-S1", "query_radius returns from inside the search loop")
    V.flush()


def radius_plane(V, ctx, ex, its, pt, r, decisions):
    """pruning by the splitting plane of the visited node (`pt[node.split_axis] - node.split_value` compared with r) instead of the boxes.
    The cell of the child holding the coordinates <= split value contains the plane itself: it may be left out only when
    offset > r (strictly); the other child only when -offset >= r.  Returns True when such tests are used."""
    used = False
    facts = getattr(ctx, "_hg_kd_plane", None)
    for c in ("left", "right"):
        for pushed, own, p in decisions[c]:
            A = f"{pt}[{p.node}.split_axis]"
            Vv = f"{p.node}.split_value"
            tests = []
            for i, (e, pol, node, kind) in enumerate(p.st.conds):
                if kind in ("if", "ifexp", "compr") and (p.leaf_cond is None or i > p.leaf_cond) and Vv in au.src(e):
                    tests.append((e, pol))
            if not tests:
                continue
            used = True
            if pushed:
                continue
            if facts is None or facts["left_low"] not in ({True}, {False}) or facts["recorded"] != {True}:
                if facts is not None and facts["recorded"] == {False} or (facts is not None and False in facts["recorded"]):
                    V.fail("plane", "C11-O1", "query_radius prunes with node.split_axis / node.split_value, which the constructor does not record as the plane the points were split at",
                           "a plane that is not the one separating the two children prunes subtrees that hold points of the ball")
                else:
                    V.und("plane", "C11-O1", "query_radius prunes with the splitting plane of the node, but which child lies on which side could not be read from the constructor")
                continue
            low = (c == "left") == (True in facts["left_low"])
            try:
                def spec(env, low=low):
                    if env[r] < 0:
                        return True
                    off = env[A] - env[Vv]
                    return off > env[r] if low else -off >= env[r]
                nums_, frees_ = set(), []
                for e_, _p in tests:
                    L.collect(e_, nums_, frees_)
                if frees_ or not nums_ <= {A, Vv, r}:
                    V.und("plane", "C11-O1", "a pruning test of query_radius on the splitting plane is not a plain comparison of the signed offset with the radius")
                    continue
                w = L.witness(tests, spec, extra_syms=(A, Vv, r), dom=range(-2, 4))
            except (L.TooBig, KeyError):
                V.und("plane", "C11-O1", "a pruning test of query_radius on the splitting plane is not a comparison of the signed offset with the radius")
                continue
            if w is None:
                V.ok("plane", "C11-O1", "a child is left out only when the ball does not reach its side of the splitting plane")
            elif any(isinstance(v_, bool) for v_ in w.values()):
                V.und("plane", "C11-O1", "a pruning test of query_radius on the splitting plane is not a plain comparison of the signed offset with the radius")
            else:
                side = "at or below" if low else "above"
                V.fail("plane", "C11-O1", f"query_radius leaves out the child holding the coordinates {side} the split value although the ball may reach its cell",
                       f"e.g. coordinate {w.get(A)}, split value {w.get(Vv)}, r = {w.get(r)}: "
                       + ("the points with coordinate equal to the split value belong to this child (the partition is `<= pivot`), so a ball tangent to the "
                          "plane still contains them: the child may be skipped only when offset > r, strictly (radius 0 on a stored pivot point returns nothing)"
                          if low else "points just beyond the plane are closer than r"))
    return used


def radius_filter(V, ex, its, pt, r, sym_r):
    X = "self.points"
    n = 0
    # leaves put aside during the traversal and read in a second pass: `leaves.append(self.nodes[id])` ... `for leaf in leaves:`
    deferred = {}
    for p in its:
        if p.leaf:
            for ev in p.st.events:
                if ev.kind == "call" and ev.tail == "append" and len(ev.args) == 1 and au.src(ev.args[0]) == p.node and S.tok_name(ev.recv):
                    for t, (k, it) in ex.toks.items():
                        if k == "elem" and au.src(it) == ev.recv.id:
                            deferred[t] = p
    for p in its:
        if not p.leaf:
            continue
        for pts in [f"{p.node}.points"] + [f"{t}.points" for t in deferred]:
            n += radius_filter_one(V, ex, p, pts, pt, r, sym_r, X, second_pass=not pts.startswith("self."))
    if n == 0:
        V.und("filter", "C11-O1", "the test keeping the points of a visited leaf that lie within the radius is not recognised in query_radius",
              "expected distance(self.points[i], point) <= r for every index i of the leaf")


def radius_filter_one(V, ex, p, pts, pt, r, sym_r, X, second_pass=False):
    n = 0
    for _once in (0,):
        if second_pass and not any(c[3] == "loop" and c[1] and S.tok_name(c[0]) for c in p.st.conds):
            return 0
        found = False
        # (a) comprehension(s) created on the path
        for tname, (kind, d) in list(ex.toks.items()):
            if kind != "display" or not isinstance(d, (ast.ListComp, ast.GeneratorExp, ast.SetComp)) or len(d.generators) != 1:
                continue
            if not any(tname in au.src(ev.call) or (ev.kind == "call" and tname in [S.tok_name(a) for a in ev.args]) for ev in p.st.events if ev.kind == "call") \
                    and not any(tname in au.src(v) for v in p.st.locals.values() if isinstance(v, ast.AST)):
                continue
            g = d.generators[0]
            if not g.ifs and isinstance(d.elt, ast.Compare):
                continue                # a boolean mask built point by point: form (c) below
            it = g.iter if isinstance(g.iter, ast.Call) else ex.expand(g.iter)
            idx = None
            dist_of = None
            if au.src(g.iter) == pts and isinstance(g.target, ast.Name):
                idx = g.target.id
                dist_of = lambda e, idx=idx: isinstance(e, ast.Call) and au.call_tail(e) == "distance" and len(e.args) == 2 and not e.keywords \
                    and {au.src(a) for a in e.args} == {f"{X}[{idx}]", pt}
            elif isinstance(it, ast.Call) and au.call_tail(it) == "zip" and len(it.args) == 2 and isinstance(g.target, ast.Tuple) and len(g.target.elts) == 2 \
                    and all(isinstance(x, ast.Name) for x in g.target.elts) and au.src(g.iter.args[0] if isinstance(g.iter, ast.Call) else it.args[0]) == pts:
                idx, off = g.target.elts[0].id, g.target.elts[1].id
                arr = it.args[1]
                okarr = isinstance(arr, ast.BinOp) and isinstance(arr.op, ast.Sub) and {au.src(arr.left), au.src(arr.right)} == {pt, f"{X}[{pts}]"}
                if not okarr:
                    continue
                dist_of = lambda e, off=off: isinstance(e, ast.Call) and au.call_tail(e) == "norm" and len(e.args) == 1 and not e.keywords \
                    and au.src(e.args[0]) == off
            else:
                if pts in au.src(it) and isinstance(it, ast.Subscript) and isinstance(it.slice, ast.Slice):
                    V.fail("filter", "C11-S1", "query_radius examines a slice of the visited leaf's points instead of all of them",
                           "every point of a visited leaf must be tested against the ball")
                    found = True
                continue
            found = True
            n += 1
            if len(g.ifs) != 1 or au.src(d.elt) != idx:
                V.und("filter", "C11-O1", "the comprehension collecting the points of a leaf has no single distance test or does not collect the index tested")
                continue
            check_filter_test(V, g.ifs[0], True, dist_of, r, sym_r)
        if found:
            continue
        # the points of the leaf collected wholesale (no per-point test on this path)
        # (c) boolean mask built point by point: out.extend(leaf.points[np.array([distance(...) <= r for idx in leaf.points])])
        for ev in p.st.events:
            if ev.kind != "call" or ev.tail not in ("extend", "update") or len(ev.args) != 1:
                continue
            a = ev.args[0]
            if not (isinstance(a, ast.Subscript) and au.src(a.value) == pts):
                continue
            m = a.slice
            for _ in range(2):
                o_ = ex.origin(m) if ex.kind(m) == "call" else None
                if isinstance(o_, ast.Call) and au.call_tail(o_) in ("array", "asarray", "fromiter") and o_.args:
                    m = o_.args[0]
            d = ex.origin(m) if ex.kind(m) == "display" else None
            if isinstance(d, (ast.ListComp, ast.GeneratorExp)) and len(d.generators) == 1 and not d.generators[0].ifs \
                    and au.src(d.generators[0].iter) == pts and isinstance(d.generators[0].target, ast.Name):
                idx = d.generators[0].target.id
                found = True
                n += 1
                check_filter_test(V, d.elt, True, lambda e, idx=idx: isinstance(e, ast.Call) and au.call_tail(e) == "distance" and len(e.args) == 2
                                  and not e.keywords and {au.src(x) for x in e.args} == {f"{X}[{idx}]", pt}, r, sym_r)
        if found:
            continue
        whole = [ev for ev in p.st.events if ev.kind == "call" and ev.tail in ("extend", "update", "append", "add")
                 and any(pts == au.src(a) or (ex.kind(a) == "call" and any(au.src(x) == pts for x in ex.origin(a).args)) for a in ev.args)]
        for v in p.st.locals.values():
            if isinstance(v, ast.BinOp):
                for n_ in ast.walk(v):
                    if (isinstance(n_, ast.Attribute) and au.src(n_) == pts and not isinstance(au.parent(n_), ast.Attribute)) or \
                            (S.tok_name(n_) and ex.kind(n_) == "call" and au.call_tail(ex.origin(n_)) in ("list", "tuple", "set", "array", "asarray")
                             and any(au.src(x) == pts for x in ex.origin(n_).args)):
                        whole = whole or [n_]
        if whole:
            V.und("filter", "C11-O1", "query_radius has a path that collects all the points of a visited leaf without testing their distance",
                  "whether the whole leaf lies within the radius on that path is not decided")
            continue
        # (b) explicit loop: for idx in leaf.points: if distance(...) <= r: out.append(idx)
        loops_over = [c for c in p.st.conds if c[3] == "loop" and au.src(c[0]) == pts]
        if not loops_over or not loops_over[0][1]:
            continue
        apps = [ev for ev in p.st.events if ev.kind == "call" and ev.tail in ("append", "add") and len(ev.args) == 1
                and ex.toks.get(S.tok_name(ev.args[0]) or "", (None,))[0] == "elem" and len(ev.loops) >= 2]
        li = next(i for i, c in enumerate(p.st.conds) if c is loops_over[0])
        tests = [(i, c) for i, c in enumerate(p.st.conds) if i > li and c[3] in ("if", "ifexp")]
        for i, c in tests:
            e2, pol2 = au.strip_not(c[0], c[1])
            if not isinstance(e2, ast.Compare):
                continue
            idx_tok = None
            for s_ in [e2.left] + list(e2.comparators):
                o = ex.origin(s_) if ex.kind(s_) == "call" else None
                if isinstance(o, ast.Call) and au.call_tail(o) == "distance" and len(o.args) == 2:
                    for a in o.args:
                        if isinstance(a, ast.Subscript) and au.src(a.value) == X and S.tok_name(a.slice):
                            idx_tok = a.slice.id
            if idx_tok is None:
                continue
            n += 1
            found = True
            kept = any(ev.nconds > i and S.tok_name(ev.args[0]) == idx_tok for ev in apps)
            dist_of = lambda e, t=idx_tok: ex.kind(e) == "call" and au.call_tail(ex.origin(e)) == "distance" and not ex.origin(e).keywords \
                and {au.src(a) for a in ex.origin(e).args} == {f"{X}[{t}]", pt}
            # the test as it holds on this path; the point is kept iff an append follows
            check_filter_test(V, e2, kept == pol2, dist_of, r, sym_r)
    return n


def check_filter_test(V, test, keeps_when_true, dist_of, r, sym_r):
    """`test` (true => the index is kept when keeps_when_true) must be `d <= r`"""
    if not isinstance(test, ast.Compare) or len(test.ops) != 1:
        V.und("filter", "C11-O1", "radius filter is not a single comparison")
        return
    sides = [test.left, test.comparators[0]]
    ds = [dist_of(s_) for s_ in sides]
    if ds[0] == ds[1]:
        V.und("filter", "C11-O1", "radius filter does not compare the distance of the tested point to the query point")
        return
    other = sides[1] if ds[0] else sides[0]
    if not (isinstance(other, ast.Name) and other.id == r):
        V.und("filter", "C11-O1", "radius filter does not compare the point distance with the radius itself")
        return
    dsrc = au.src(sides[0] if ds[0] else sides[1])
    try:
        wit, ne = order.compare(test, "d <= r", lambda n: "d" if au.src(n) == dsrc else sym_r(n), negate_code=not keeps_when_true)
        if wit is None:
            V.ok("filter", "C11-O1", "radius filter keeps exactly d <= r")
        else:
            V.fail("filter", "C11-O1", "the radius filter of query_radius is not `distance <= r`",
                   f"differs from `d <= r` for {wit}: points at distance exactly r (or beyond) are mis-classified")
    except order.Unsupported:
        V.und("filter", "C11-O1", "radius filter is not a comparison of the point distance with r")
