"""R-LAZY: typestate of lazily built caches (None -> built), per concrete class.

State = frozenset of lazy fields that are built on every path (must).  Entry points are
analysed from the state produced by the class's __init__ chain, self/super calls and
property reads are inlined context-sensitively (depth bound DEPTH), so the verdict holds
for every order in which a user can issue queries, as long as the group invariant
("fields written together are built together") holds - which the analysis derives from
the writers themselves rather than assuming it.
"""
from __future__ import annotations
import ast
from .. import au
from ..core import AnalysisError
from ..flow import Flow, TOP, meet

DEPTH = 16


def _is_none(e):
    return isinstance(e, ast.Constant) and e.value is None


class LazyClass:
    def __init__(self, repo, modname, qualname, recv="self"):
        self.repo = repo
        self.mod = repo.module(modname)
        self.cls = repo.cls(modname, qualname)
        self.qual = qualname
        self.mro = repo.mro(self.mod, self.cls)
        self.methods = repo.methods(self.mod, self.cls)
        self.props = {n for n, (m, f, o) in self.methods.items() if _is_property(f)}
        self.all_defs = []  # every definition in the MRO, overridden ones included
        for m, c in self.mro:
            for st in c.body:
                if isinstance(st, ast.FunctionDef):
                    self.all_defs.append((m, st, c))
        self.guard_fields = set()   # fields tested `self.f is None`
        self.none_fields = set()    # fields assigned None somewhere
        for m, fn, c in self.all_defs:
            for n in au.walk(fn):
                if isinstance(n, ast.Compare) and len(n.ops) == 1 and isinstance(n.ops[0], (ast.Is, ast.IsNot)) \
                        and _is_none(n.comparators[0]) and au.is_self_attr(n.left):
                    self.guard_fields.add(n.left.attr)
            for st in au.stmts(fn.body):
                for tgt, val in _field_assignments(st):
                    if val is not None and _is_none(val):
                        self.none_fields.add(tgt)
        self.lazy = self.guard_fields | self.none_fields
        self._writers = None
        self.violations = {}   # key -> dict
        self.derefs_checked = 0
        self.entry_points = []

    # ---------------------------------------------------------------- writers
    def direct_writes(self, fn):
        """Lazy fields assigned a non-None value directly in fn's body."""
        out = set()
        for st in au.stmts(fn.body):
            for tgt, val in _field_assignments(st):
                if tgt in self.lazy and (val is None or not _is_none(val)):
                    out.add(tgt)
        return out

    def direct_resets(self, fn):
        out = set()
        for st in au.stmts(fn.body):
            for tgt, val in _field_assignments(st):
                if tgt in self.lazy and val is not None and _is_none(val):
                    out.add(tgt)
        return out

    def _super_chain(self, owner, name):
        """Definitions of `name` reached from the concrete class through explicit
        `super().<name>()` calls: [(mod, fn, owner), ...]"""
        chain = []
        cur = self.methods.get(name)
        seen = set()
        while cur and id(cur[1]) not in seen:
            seen.add(id(cur[1]))
            chain.append(cur)
            m, fn, o = cur
            nxt = None
            for c in au.calls(fn):
                f = c.func
                if isinstance(f, ast.Attribute) and f.attr == name and isinstance(f.value, ast.Call) \
                        and isinstance(f.value.func, ast.Name) and f.value.func.id == "super":
                    nxt = self.resolve_super(o, name)
            cur = nxt
        return chain

    def writers(self):
        """method name -> set of lazy fields written (non-None) along its override chain;
        only for the concrete class's view of the method (excluding __init__)."""
        if self._writers is None:
            w = {}
            for name in self.methods:
                if name == "__init__":
                    continue
                s = set()
                for m, fn, o in self._super_chain(None, name):
                    s |= self.direct_writes(fn)
                if s:
                    w[name] = s
            self._writers = w
        return self._writers

    def group(self, f):
        """Fields guaranteed non-None whenever f is non-None: intersection of the write
        sets of all writers of f (f itself always included)."""
        g = None
        for name, s in self.writers().items():
            if f in s:
                g = set(s) if g is None else (g & s)
        return (g or set()) | {f}

    def resolve_super(self, owner_cls, name):
        idx = None
        for i, (m, c) in enumerate(self.mro):
            if c is owner_cls:
                idx = i
                break
        if idx is None:
            return None
        for m, c in self.mro[idx + 1:]:
            for st in c.body:
                if isinstance(st, ast.FunctionDef) and st.name == name and not _is_setter(st):
                    return (m, st, c)
        return None

    # ---------------------------------------------------------------- analysis
    def analyse(self, fn_entry, state, stack=(), path=()):
        """Abstractly run method (mod, fn, owner) from `state`; returns exit state (TOP if it never
        returns normally)."""
        m, fn, owner = fn_entry
        if id(fn) in stack:
            return state  # recursion: assume the re-entrant call establishes nothing (sound for a must-analysis)
        if len(stack) >= DEPTH:
            raise AnalysisError(f"R-LAZY: inlining depth {DEPTH} exceeded at {' -> '.join(path + (fn.name,))}")
        stack = stack + (id(fn),)
        path = path + (fn.name,)
        eng = _Engine(self, fn_entry, stack, path)
        flow = Flow(eng.stmt, eng.test, eng.refine)
        flow.run(fn.body, state)
        out = TOP
        for kind, node, s in flow.exits:
            if kind in ("return", "fall"):
                out = meet(out, s)
        return out

    def init_state(self):
        init = self.methods.get("__init__")
        if not init:
            return frozenset()
        s = self.analyse(init, frozenset())
        return frozenset() if s is TOP else s

    def check_uses(self, include_private=False):
        s0 = self.init_state()
        self.state0 = s0
        for name, entry in sorted(self.methods.items()):
            if name.startswith("__") and name.endswith("__"):
                continue
            if name.startswith("_") and not include_private:
                continue
            self.entry_points.append(name)
            self.analyse(entry, s0, (), ())
        return self.violations

    def report(self, fn_entry, node, field, how, path, in_try):
        m, fn, owner = fn_entry
        if in_try:
            return
        q = getattr(fn, "_qualname", fn.name)
        key = (m.name, q, field, how)
        if key not in self.violations:
            self.violations[key] = {"module": m.name, "qualname": q, "line": node.lineno, "field": field,
                                    "how": how, "entry_path": " -> ".join(path), "expr": au.src(node)}

    # ------------------------------------------------------------ L-init / L-clear
    def init_assigned(self):
        """Fields assigned anywhere in the __init__ chain (following super().__init__,
        Base.__init__(self, ...) and self-calls)."""
        out, seen = set(), set()

        def rec(entry, depth):
            if entry is None or id(entry[1]) in seen or depth > DEPTH:
                return
            seen.add(id(entry[1]))
            m, fn, o = entry
            for st in au.stmts(fn.body):
                for tgt, val in _field_assignments(st):
                    out.add(tgt)
            for c in au.calls(fn):
                t = self.resolve_call(c, entry)
                if t:
                    rec(t, depth + 1)
        rec(self.methods.get("__init__"), 0)
        return out

    def fields_read(self):
        out = {}
        for m, fn, c in self.all_defs:
            for n in au.walk(fn):
                if au.is_self_attr(n) and isinstance(n.ctx, ast.Load):
                    out.setdefault(n.attr, (m, fn, n))
        return out

    def reset_closure(self, name):
        """Lazy fields set to None by method `name`, following super()/self calls."""
        out, seen = set(), set()

        def rec(entry, depth):
            if entry is None or id(entry[1]) in seen or depth > DEPTH:
                return
            seen.add(id(entry[1]))
            out.update(self.direct_resets(entry[1]))
            for c in au.calls(entry[1]):
                t = self.resolve_call(c, entry)
                if t:
                    rec(t, depth + 1)
        rec(self.methods.get(name), 0)
        return out

    def resolve_call(self, call, entry):
        """(mod, fn, owner) for self.m(...), super().m(...), Base.m(self, ...) else None."""
        m, fn, owner = entry
        f = call.func
        if isinstance(f, ast.Attribute):
            if isinstance(f.value, ast.Name) and f.value.id == "self":
                return self.methods.get(f.attr)
            if isinstance(f.value, ast.Call) and isinstance(f.value.func, ast.Name) and f.value.func.id == "super":
                return self.resolve_super(owner, f.attr)
            # Base.method(self, ...)
            if call.args and isinstance(call.args[0], ast.Name) and call.args[0].id == "self":
                r = self.repo._resolve_class_expr(m, f.value)
                if r:
                    for mm, cc in self.repo.mro(*r):
                        for st in cc.body:
                            if isinstance(st, ast.FunctionDef) and st.name == f.attr:
                                return (mm, st, cc)
        return None


def _is_property(fn):
    for d in fn.decorator_list:
        if isinstance(d, ast.Name) and d.id == "property":
            return True
    return False


def _is_setter(fn):
    for d in fn.decorator_list:
        if isinstance(d, ast.Attribute) and d.attr in ("setter", "deleter"):
            return True
    return False


def _field_assignments(st):
    """Yield (field, value_expr|None) for `self.f = v` forms of a statement (tuple
    assignments are split when both sides are tuples of equal length)."""
    if isinstance(st, ast.Assign):
        for t in st.targets:
            yield from _pairs(t, st.value)
    elif isinstance(st, ast.AnnAssign):
        if st.value is not None:
            yield from _pairs(st.target, st.value)
    elif isinstance(st, ast.AugAssign):
        if au.is_self_attr(st.target):
            yield st.target.attr, None


def _pairs(t, v):
    if au.is_self_attr(t):
        yield t.attr, v
    elif isinstance(t, (ast.Tuple, ast.List)):
        if isinstance(v, (ast.Tuple, ast.List)) and len(v.elts) == len(t.elts):
            for a, b in zip(t.elts, v.elts):
                yield from _pairs(a, b)
        else:
            for a in t.elts:
                if au.is_self_attr(a):
                    yield a.attr, None


class _Engine:
    """Transfer functions for one activation of one method."""

    def __init__(self, lc: LazyClass, entry, stack, path):
        self.lc, self.entry, self.stack, self.path = lc, entry, stack, path
        self.try_depth_nodes = set()
        m, fn, o = entry
        for st in au.stmts(fn.body):
            if isinstance(st, ast.Try) and any(_catches_all(h) for h in st.handlers):
                for s in au.stmts(st.body):
                    for n in au.walk(s):
                        self.try_depth_nodes.add(id(n))

    # -- expression evaluation: returns new state; checks derefs against state
    def expr(self, state, e, gens=True):
        if e is None or state is TOP:
            return state
        lc = self.lc
        if isinstance(e, ast.BoolOp):
            state = self.expr(state, e.values[0], gens)
            for v in e.values[1:]:
                self.expr(state, v, False)
            return state
        if isinstance(e, ast.IfExp):
            state = self.expr(state, e.test, gens)
            s1 = self.expr(self.refine(state, e.test, True), e.body, gens)
            s2 = self.expr(self.refine(state, e.test, False), e.orelse, gens)
            return meet(s1, s2) if gens else state
        if isinstance(e, ast.Lambda):
            self.expr(state, e.body, False)
            return state
        if isinstance(e, (ast.ListComp, ast.SetComp, ast.GeneratorExp, ast.DictComp)):
            for i, g in enumerate(e.generators):
                if i == 0:
                    state = self.expr(state, g.iter, gens)
                    self._iter_use(state, g.iter)
                else:
                    self.expr(state, g.iter, False)
                    self._iter_use(state, g.iter)
                for t in g.ifs:
                    self.expr(state, t, False)
            if isinstance(e, ast.DictComp):
                self.expr(state, e.key, False)
                self.expr(state, e.value, False)
            else:
                self.expr(state, e.elt, False)
            return state
        if isinstance(e, ast.Call):
            state = self.expr(state, e.func, gens)
            for a in e.args:
                state = self.expr(state, a.value if isinstance(a, ast.Starred) else a, gens)
            for k in e.keywords:
                state = self.expr(state, k.value, gens)
            if isinstance(e.func, ast.Name) and e.func.id in ("len", "iter", "list", "set", "sorted", "enumerate", "tuple", "sum", "min", "max") and e.args:
                self._iter_use(state, e.args[0])
            tgt = lc.resolve_call(e, self.entry)
            if tgt is not None:
                out = lc.analyse(tgt, state, self.stack, self.path)
                if gens:
                    return out
            return state
        if isinstance(e, ast.Attribute):
            if au.is_self_attr(e):
                if isinstance(e.ctx, ast.Load) and e.attr in lc.props and e.attr in lc.methods:
                    out = lc.analyse(lc.methods[e.attr], state, self.stack, self.path)
                    return out if gens else state
                return state
            state = self.expr(state, e.value, gens)
            self._deref(state, e.value, e, "attribute access ." + e.attr)
            return state
        if isinstance(e, ast.Subscript):
            state = self.expr(state, e.value, gens)
            state = self.expr(state, e.slice, gens)
            self._deref(state, e.value, e, "subscript")
            return state
        if isinstance(e, ast.Compare):
            state = self.expr(state, e.left, gens)
            for op, c in zip(e.ops, e.comparators):
                state = self.expr(state, c, gens)
                if isinstance(op, (ast.In, ast.NotIn)):
                    self._deref(state, c, e, "membership test")
            return state
        for c in ast.iter_child_nodes(e):
            if isinstance(c, ast.expr):
                state = self.expr(state, c, gens)
            elif isinstance(c, ast.keyword):
                state = self.expr(state, c.value, gens)
            elif isinstance(c, ast.comprehension):
                pass
        return state

    def _iter_use(self, state, it):
        self._deref(state, it, it, "iteration / len")

    def _deref(self, state, base, node, how):
        if state is TOP:
            return
        if au.is_self_attr(base) and base.attr in self.lc.lazy:
            self.lc.derefs_checked += 1
            if base.attr not in state:
                self.lc.report(self.entry, node, base.attr, how, self.path, id(node) in self.try_depth_nodes)

    # -- statements
    def stmt(self, state, st):
        if state is TOP:
            return state
        lc = self.lc
        if isinstance(st, (ast.Assign, ast.AnnAssign)):
            val = st.value
            state = self.expr(state, val)
            if state is TOP:
                return state
            tgts = st.targets if isinstance(st, ast.Assign) else [st.target]
            for t in tgts:
                state = self._store(state, t)
            for f, v in _field_assignments(st):
                if f in lc.lazy:
                    if v is not None and _is_none(v):
                        state = state - {f}
                    else:
                        state = state | {f}
            return state
        if isinstance(st, ast.AugAssign):
            state = self.expr(state, st.value)
            if state is TOP:
                return state
            if au.is_self_attr(st.target):
                self._deref(state, st.target, st, "augmented assignment")
            else:
                state = self._store(state, st.target)
            return state
        if isinstance(st, ast.Return):
            state = self.expr(state, st.value)
            if state is not TOP and st.value is not None and au.is_self_attr(st.value) \
                    and (st.value.attr in lc.guard_fields or any(st.value.attr in w for w in lc.writers().values())) \
                    and st.value.attr in lc.lazy and st.value.attr not in state:
                lc.derefs_checked += 1
                lc.report(self.entry, st, st.value.attr, "returned while possibly None", self.path,
                          id(st.value) in self.try_depth_nodes)
            return state
        if hasattr(st, "loop"):  # _ForHead
            state = self.expr(state, st.iter)
            self._iter_use(state, st.iter)
            return state
        if isinstance(st, ast.Expr):
            return self.expr(state, st.value)
        if isinstance(st, ast.Raise):
            return self.expr(state, st.exc)
        if isinstance(st, ast.Delete):
            return state
        for c in ast.iter_child_nodes(st):
            if isinstance(c, ast.expr):
                state = self.expr(state, c)
        return state

    def _store(self, state, t):
        if isinstance(t, (ast.Tuple, ast.List)):
            for x in t.elts:
                state = self._store(state, x)
            return state
        if isinstance(t, ast.Subscript):
            state = self.expr(state, t.value)
            state = self.expr(state, t.slice)
            self._deref(state, t.value, t, "subscript store")
            return state
        if isinstance(t, ast.Attribute) and not au.is_self_attr(t):
            state = self.expr(state, t.value)
            self._deref(state, t.value, t, "attribute store")
        return state

    def test(self, state, e):
        return self.expr(state, e)

    def refine(self, state, e, branch):
        if state is TOP:
            return state
        lc = self.lc
        if isinstance(e, ast.UnaryOp) and isinstance(e.op, ast.Not):
            return self.refine(state, e.operand, not branch)
        if isinstance(e, ast.Compare) and len(e.ops) == 1 and _is_none(e.comparators[0]) and au.is_self_attr(e.left):
            f = e.left.attr
            if f in lc.lazy:
                is_none = isinstance(e.ops[0], ast.Is) == branch
                if isinstance(e.ops[0], (ast.Is, ast.IsNot)):
                    if is_none:
                        # the field is known to be built on every path: this branch is infeasible
                        return TOP if f in state else state
                    return state | lc.group(f)
        if isinstance(e, ast.BoolOp):
            if isinstance(e.op, ast.And) and branch:
                for v in e.values:
                    state = self.refine(state, v, True)
            elif isinstance(e.op, ast.Or) and not branch:
                for v in e.values:
                    state = self.refine(state, v, False)
        return state


def _catches_all(h):
    if h.type is None:
        return True
    return isinstance(h.type, ast.Name) and h.type.id in ("Exception", "BaseException", "AttributeError", "TypeError")
