"""hd_sx - path-sensitive symbolic reading of small functions (used by the C05 / C06 rules).

Nothing of the repository is imported or executed: the *syntax tree* of a function is walked statement by statement and every
structured path through it is described by

  * the ordered list of atomic conditions that hold on the path (`if` / `elif` / early exits / conditional expressions /
    `and` / `or` are all split into atoms with a polarity, so that the layout of a decision does not matter),
  * the ordered list of effects (stores into attributes / subscripts, augmented assignments, calls kept as calls, raises,
    loops with the paths of one iteration of their body),
  * the way it ends (fall / return <value> / raise) .

Local names are substituted by the expression they are bound to, stores into `x.attr` / `x[k]` are remembered and read back,
calls to private helpers (methods of the same class through `self`, functions of the same module, nested functions, lambdas
passed as arguments) are expanded in place with their parameters bound, `getattr/setattr` with a constant name are read as
attribute access and loops over literal tables (inline tuples, module-level or class-level constant tables, `.items()` of a
literal dict) are unrolled.  A rule then states its obligation on the paths instead of on the layout of the code: a helper
extracted or inlined, a guard clause instead of an else branch, a local renamed, a table-driven loop instead of repeated
statements give the same paths."""
from __future__ import annotations
import ast
from .. import au

LIMIT = 1500        # live paths
MAX_UNROLL = 24
MAX_DEPTH = 4


class TooComplex(Exception):
    pass


# ------------------------------------------------------------------------------------------------ small AST helpers
class Fn(ast.expr):
    """value of a local `def`: kept by identity"""
    _fields = ()

    def __init__(self, fn=None, closure=None):
        super().__init__()
        self.fn, self.closure = fn, closure


def clone(node):
    if isinstance(node, list):
        return [clone(x) for x in node]
    if isinstance(node, Fn) or not isinstance(node, ast.AST):
        return node
    new = type(node)()
    for f in node._fields:
        if hasattr(node, f):
            setattr(new, f, clone(getattr(node, f)))
    for a in ("lineno", "col_offset", "end_lineno", "end_col_offset"):
        if hasattr(node, a):
            setattr(new, a, getattr(node, a))
    return new


def replace(tree, target, new):
    """copy of `tree` with the node `target` (by identity) replaced by `new`"""
    if tree is target:
        return clone(new)
    if isinstance(tree, list):
        return [replace(x, target, new) for x in tree]
    if isinstance(tree, Fn) or not isinstance(tree, ast.AST):
        return tree
    out = type(tree)()
    for f in tree._fields:
        if hasattr(tree, f):
            setattr(out, f, replace(getattr(tree, f), target, new))
    for a in ("lineno", "col_offset", "end_lineno", "end_col_offset"):
        if hasattr(tree, a):
            setattr(out, a, getattr(tree, a))
    return out


def src(e):
    if e is None:
        return "None"
    try:
        return ast.unparse(e)
    except Exception:
        return "<%s>" % type(e).__name__


def name(e, ctx=None):
    return ast.Name(id=e, ctx=ctx or ast.Load())


def const(v):
    return ast.Constant(value=v)


COMPS = (ast.ListComp, ast.SetComp, ast.GeneratorExp, ast.DictComp)
DUNDER = {"__len__": "len", "__iter__": "iter", "__repr__": "repr", "__str__": "str"}
MUTATORS = {"append", "extend", "insert", "pop", "remove", "clear", "sort", "reverse", "update", "add", "discard", "setdefault", "fill", "resize", "popitem"}


def unwrap_after(e):
    """strip the `__after__(value, how)` markers (an object modified after it was built): the object as it was built"""
    while isinstance(e, ast.Call) and isinstance(e.func, ast.Name) and e.func.id == "__after__" and e.args:
        e = e.args[0]
    return e


def is_path(e):
    """a reference path: name, or attribute / subscript chain rooted at one"""
    while isinstance(e, (ast.Attribute, ast.Subscript)):
        e = e.value
    return isinstance(e, ast.Name)


def split_cond(test, pol):
    """Short-circuit paths of a condition: list of alternatives, each a list of (atom, polarity)."""
    if isinstance(test, ast.UnaryOp) and isinstance(test.op, ast.Not):
        return split_cond(test.operand, not pol)
    if isinstance(test, ast.Call) and au.call_tail(test) == "isinstance" and isinstance(test.func, ast.Name) and len(test.args) == 2 \
            and isinstance(test.args[1], ast.Tuple) and test.args[1].elts and not test.keywords:
        parts = [ast.Call(func=test.func, args=[test.args[0], t], keywords=[]) for t in test.args[1].elts]
        return split_cond(ast.BoolOp(op=ast.Or(), values=parts) if len(parts) > 1 else parts[0], pol)
    if isinstance(test, ast.BoolOp):
        conj = isinstance(test.op, ast.And)
        if conj == pol:
            # all operands have the polarity `pol` (and-true / or-false): one product of the alternatives
            outs = [[]]
            for v in test.values:
                alts = split_cond(v, pol)
                outs = [o + a for o in outs for a in alts]
            return outs
        # first operand that decides: earlier ones have the other polarity
        outs, prefix = [], [[]]
        for v in test.values:
            for a in split_cond(v, pol):
                outs += [p + a for p in prefix]
            neg = split_cond(v, not pol)
            prefix = [p + a for p in prefix for a in neg]
        return outs
    if isinstance(test, ast.Compare) and len(test.ops) > 1:
        # a < b < c
        parts, left = [], test.left
        for op, c in zip(test.ops, test.comparators):
            parts.append(ast.Compare(left=left, ops=[op], comparators=[c]))
            left = c
        return split_cond(ast.BoolOp(op=ast.And(), values=parts), pol)
    return [[(test, pol)]]


_CMP = {ast.Eq: lambda a, b: a == b, ast.NotEq: lambda a, b: a != b, ast.Lt: lambda a, b: a < b, ast.LtE: lambda a, b: a <= b,
        ast.Gt: lambda a, b: a > b, ast.GtE: lambda a, b: a >= b, ast.Is: lambda a, b: a is b, ast.IsNot: lambda a, b: a is not b}
_NOT_NONE = (ast.List, ast.Tuple, ast.Dict, ast.Set, ast.Lambda, ast.JoinedStr, ast.ListComp, ast.DictComp, ast.SetComp)


def fold(atom):
    """truth value of an atom when it is decidable from literals alone, else None"""
    if isinstance(atom, ast.Constant):
        return bool(atom.value)
    if isinstance(atom, ast.Compare) and len(atom.ops) == 1:
        l, r, op = atom.left, atom.comparators[0], type(atom.ops[0])
        if isinstance(l, ast.Constant) and isinstance(r, ast.Constant) and op in _CMP:
            try:
                return bool(_CMP[op](l.value, r.value))
            except Exception:
                return None
        if op in (ast.Is, ast.IsNot) and isinstance(r, ast.Constant) and r.value is None and isinstance(l, _NOT_NONE):
            return op is ast.IsNot
    return None


def canon(atom, pol=True):
    return au.canon_test(atom, pol)


# ------------------------------------------------------------------------------------------------ states
class Event:
    __slots__ = ("kind", "node", "a", "b", "c", "nconds", "x")

    def __init__(self, kind, node, a=None, b=None, c=None, nconds=0):
        self.kind, self.node, self.a, self.b, self.c, self.nconds = kind, node, a, b, c, nconds
        self.x = None            # free slot for the rules

    def __repr__(self):
        if self.kind == "loop":
            return f"loop {src(self.b)} in {src(self.a)}: {len(self.c.body)} path(s)"
        if self.kind == "aug":
            return f"aug {src(self.a)} {type(self.c).__name__}= {src(self.b)}"
        if self.kind == "store":
            return f"store {src(self.a)} = {src(self.b)}"
        return f"{self.kind} {src(self.a)}"


class Loop:
    def __init__(self, node, iter, target, body, init, carried):
        self.node, self.iter, self.target, self.body, self.init, self.carried = node, iter, target, body, init, carried


class State:
    def __init__(self):
        self.env, self.heap, self.conds, self.events = {}, {}, [], []
        self.end, self.ret, self.notes = "fall", None, []
        self.ckeys = set()

    def copy(self):
        s = State()
        s.env, s.heap, s.conds, s.events = dict(self.env), dict(self.heap), list(self.conds), list(self.events)
        s.end, s.ret, s.notes, s.ckeys = self.end, self.ret, list(self.notes), set(self.ckeys)
        return s

    def canon(self, upto=None):
        cs = self.conds if upto is None else self.conds[:upto]
        return [canon(t, p) for t, p in cs]

    def dump(self, indent=""):
        out = [f"{indent}path [{' & '.join(self.canon())}] -> {self.end} {src(self.ret) if self.end == 'return' else ''}"]
        for ev in self.events:
            out.append(f"{indent}   {ev!r}")
            if ev.kind == "loop":
                for b in ev.c.body:
                    out.append(b.dump(indent + "      "))
        for n in self.notes:
            out.append(f"{indent}   note: {n}")
        return "\n".join(out)


def walk_events(state, loops=(), base=()):
    """(event, conditions that hold at the event, enclosing Loop objects) for every event of a path, bodies of loops included"""
    for ev in state.events:
        yield ev, list(base) + state.conds[:ev.nconds], loops
        if ev.kind == "loop":
            for b in ev.c.body:
                yield from walk_events(b, loops + (ev.c,), list(base) + state.conds[:ev.nconds])


def exprs_of(ev):
    return [x for x in (ev.a, ev.b) if isinstance(x, ast.AST)]


# ------------------------------------------------------------------------------------------------ resolver
class _Resolver(ast.NodeTransformer):
    def __init__(self, env, heap):
        self.env, self.heap, self.shadow = env, heap, []

    def _shadowed(self, n):
        return any(n in s for s in self.shadow)

    def visit_Name(self, n):
        if isinstance(n.ctx, ast.Load) and not self._shadowed(n.id) and n.id in self.env:
            v = self.env[n.id]
            if isinstance(v, Fn):
                return n
            return clone(v)
        return n

    def _heap(self, n):
        if isinstance(getattr(n, "ctx", None), ast.Load) and self.heap and is_path(n):
            k = src(n)
            if k in self.heap:
                return clone(self.heap[k])
        return n

    def visit_Attribute(self, n):
        self.generic_visit(n)
        return self._heap(n)

    def visit_Subscript(self, n):
        self.generic_visit(n)
        return self._heap(n)

    def visit_Call(self, n):
        # a call of a local function whose body is one `return <expr>` (or of a local lambda) is replaced by that expression, wherever it stands
        if isinstance(n.func, ast.Name) and not self._shadowed(n.func.id) and not n.keywords and not any(isinstance(a, ast.Starred) for a in n.args):
            v = self.env.get(n.func.id)
            body = params = closure = None
            if isinstance(v, Fn) and isinstance(v.fn, ast.FunctionDef):
                stmts_ = [x for x in v.fn.body if not (isinstance(x, ast.Expr) and isinstance(x.value, ast.Constant))]
                a = v.fn.args
                if len(stmts_) == 1 and isinstance(stmts_[0], ast.Return) and stmts_[0].value is not None and not (a.vararg or a.kwarg or a.kwonlyargs or a.defaults):
                    body, params, closure = stmts_[0].value, [x.arg for x in a.posonlyargs + a.args], v.closure or {}
            elif isinstance(v, ast.Lambda):
                a = v.args
                if not (a.vararg or a.kwarg or a.kwonlyargs or a.defaults):
                    body, params, closure = v.body, [x.arg for x in a.posonlyargs + a.args], None
            if body is not None and len(params) == len(n.args) and getattr(self, "_beta", 0) < 6:
                args = [self.visit(a) for a in n.args]
                self._beta = getattr(self, "_beta", 0) + 1
                try:
                    if closure is not None:
                        inner = _Resolver({**closure, **dict(zip(params, args))}, self.heap)
                    else:
                        inner = _Resolver(dict(zip(params, args)), {})       # a lambda value was resolved when it was bound
                    inner._beta = self._beta
                    return inner.visit(clone(body))
                finally:
                    self._beta -= 1
        self.generic_visit(n)
        f = n.func
        if isinstance(f, ast.Name) and f.id == "getattr" and len(n.args) == 3 and not n.keywords and not self.shadow \
                and isinstance(n.args[1], ast.Constant) and isinstance(n.args[1].value, str) and n.args[1].value.isidentifier():
            # getattr(x, "name", default)  ==  x.name if hasattr(x, "name") else default
            return ast.IfExp(test=ast.Call(func=name("hasattr"), args=[clone(n.args[0]), n.args[1]], keywords=[]),
                             body=self._heap(ast.Attribute(value=n.args[0], attr=n.args[1].value, ctx=ast.Load())), orelse=n.args[2])
        if isinstance(f, ast.Name) and f.id == "getattr" and len(n.args) == 2 and not n.keywords \
                and isinstance(n.args[1], ast.Constant) and isinstance(n.args[1].value, str) and n.args[1].value.isidentifier():
            return self._heap(ast.Attribute(value=n.args[0], attr=n.args[1].value, ctx=ast.Load()))
        if isinstance(f, ast.Attribute) and f.attr in DUNDER and not n.args and not n.keywords:
            return ast.Call(func=name(DUNDER[f.attr]), args=[f.value], keywords=[])
        return n

    def visit_Lambda(self, n):
        a = n.args
        self.shadow.append({x.arg for x in a.posonlyargs + a.args + a.kwonlyargs} | ({a.vararg.arg} if a.vararg else set())
                           | ({a.kwarg.arg} if a.kwarg else set()))
        n.body = self.visit(n.body)
        self.shadow.pop()
        return n

    def _comp(self, n):
        bound = set()
        for i, g in enumerate(n.generators):
            if i == 0:
                g.iter = self.visit(g.iter)
            else:
                self.shadow.append(set(bound))
                g.iter = self.visit(g.iter)
                self.shadow.pop()
            bound.update(au.assigned_names(g.target))
            self.shadow.append(set(bound))
            g.ifs = [self.visit(t) for t in g.ifs]
            self.shadow.pop()
        self.shadow.append(bound)
        if isinstance(n, ast.DictComp):
            n.key, n.value = self.visit(n.key), self.visit(n.value)
        else:
            n.elt = self.visit(n.elt)
        self.shadow.pop()
        return n

    visit_ListComp = visit_SetComp = visit_GeneratorExp = visit_DictComp = _comp


def flatten_starred(e):
    """`(a, *(b, c))` -> `(a, b, c)` for literal tuples / lists"""
    for n in ast.walk(e):
        if isinstance(n, (ast.Tuple, ast.List)) and any(isinstance(x, ast.Starred) and isinstance(x.value, (ast.Tuple, ast.List)) for x in n.elts):
            new = []
            for x in n.elts:
                if isinstance(x, ast.Starred) and isinstance(x.value, (ast.Tuple, ast.List)):
                    new.extend(x.value.elts)
                else:
                    new.append(x)
            n.elts = new
    return e


# ------------------------------------------------------------------------------------------------ executor
class Frame:
    def __init__(self, modname, fn, owner=None, self_name=None):
        self.modname, self.fn, self.owner, self.self_name = modname, fn, owner, self_name


class SX:
    """repo: msa.core.Repo;  modname: module of the function (relative to the package);  cls: qualname of the class whose
    methods `self.<m>(...)` resolve to (the concrete class when an inherited method is read)."""

    def __init__(self, repo, modname, cls=None, inline=None, depth=MAX_DEPTH, unroll=True, inline_names=(), skip=(), keep_props=None, fold_hook=None):
        self.repo = repo
        self.mod = repo.module(modname)
        self.cls = repo.cls(modname, cls) if cls else None
        self.methods = repo.methods(self.mod, self.cls) if self.cls is not None else {}
        self.props = {n for n, (m, f, c) in self.methods.items() if any(au.src(d) in ("property", "cached_property", "functools.cached_property")
                                                                           for d in f.decorator_list)}
        self.policy = inline
        self.inline_names = set(inline_names)
        self.skip = set(skip)            # callee names that are never expanded (kept as opaque calls)
        self.keep_props = None if keep_props is None else set(keep_props)   # properties of `self` kept as symbols (None: all of them)
        self.depth, self.unroll = depth, unroll
        self.fold_hook = fold_hook       # atom -> True / False / None: facts of the domain that decide a condition (prunes infeasible paths)
        self.frames = []
        self.count = 0

    # ------------------------------------------------------------------ entry
    def run(self, fn, bind=None):
        """paths of `fn`; `bind`: parameter name -> expression (else parameters are symbols)"""
        st = State()
        for k, v in (bind or {}).items():
            st.env[k] = v
        ps = au.params(fn)
        is_method = self.cls is not None and ps and ps[0] in ("self", "cls") and not any(au.src(d) == "staticmethod" for d in fn.decorator_list)
        self.frames.append(Frame(self.mod.name, fn, self._owner_of(fn), ps[0] if is_method else None))
        try:
            out = self._block(fn.body, [st])
        finally:
            self.frames.pop()
        return out

    def _owner_of(self, fn):
        p = au.parent(fn)
        return p if isinstance(p, ast.ClassDef) else None

    # ------------------------------------------------------------------ blocks
    def _block(self, body, states):
        for stmt in body:
            nxt = []
            for s in states:
                if s.end != "fall":
                    nxt.append(s)
                else:
                    nxt.extend(self._stmt(stmt, s))
            states = nxt
            if len(states) > LIMIT:
                raise TooComplex(f"more than {LIMIT} paths")
        return states

    def resolve(self, e, st):
        e = _Resolver(st.env, st.heap).visit(clone(e))
        return flatten_starred(e)

    # ------------------------------------------------------------------ expressions
    def _expr(self, e, st):
        """[(state, expression)] : names resolved, helper calls expanded, conditional expressions split"""
        if e is None:
            return [(st, None)]
        return self._reduce(self.resolve(e, st), st, 0)

    def _reduce(self, e, st, n):
        if n > 60:
            raise TooComplex("expression does not reduce")
        node = self._find(e, st)
        if node is None:
            return [(st, e)]
        out = []
        if isinstance(node, ast.IfExp):
            for pol, br in ((True, node.body), (False, node.orelse)):
                for alt in split_cond(node.test, pol):
                    s2 = st.copy()
                    if self._assume(s2, alt):
                        out += self._reduce(replace(e, node, br), s2, n + 1)
            return out
        if isinstance(node, ast.NamedExpr):
            # `(n := value)`: bind the name, read the expression as the value (later uses of the name in the same expression included)
            val = node.value
            st.env[node.target.id] = val
            e2 = replace(e, node, val)
            tid = node.target.id

            class _S(ast.NodeTransformer):
                def visit_Name(self, n):
                    return clone(val) if (n.id == tid and isinstance(n.ctx, ast.Load)) else n

                def visit_Lambda(self, n):
                    return n
            if not any(isinstance(x, ast.Name) and x.id == tid for x in ast.walk(val)):
                e2 = _S().visit(e2)
            return self._reduce(e2, st, n + 1)
        if isinstance(node, ast.Attribute):
            m, fn, owner = self._prop(node, st)
            call = ast.Call(func=ast.Attribute(value=node.value, attr=node.attr, ctx=ast.Load()), args=[], keywords=[])
            res = self._inline(call, st, forced=("method", fn, node.value, m.name, owner, None))
        else:
            res = self._inline(node, st)
        for s2, rv in res:
            if s2.end == "raise":
                out.append((s2, None))
            else:
                out += self._reduce(replace(e, node, rv if rv is not None else const(None)), s2, n + 1)
        return out

    def _find(self, e, st):
        """first conditional expression / expandable call in evaluation order (not inside lambdas / comprehensions)"""
        if isinstance(e, (ast.Lambda, Fn) + COMPS) or not isinstance(e, ast.AST):
            return None
        if isinstance(e, ast.IfExp):
            return self._find(e.test, st) or e
        for c in ast.iter_child_nodes(e):
            r = self._find(c, st)
            if r is not None:
                return r
        if isinstance(e, ast.Call) and self._callee(e, st) is not None:
            return e
        if isinstance(e, ast.Attribute) and self._prop(e, st) is not None:
            return e
        if isinstance(e, ast.NamedExpr) and isinstance(e.target, ast.Name):
            return e
        return None

    def _prop(self, e, st):
        """FunctionDef of the property of `self` that the attribute read `self.<name>` evaluates (None: kept as a symbol)"""
        if self.keep_props is None or getattr(e, "_noinline", False) or len(self.frames) > self.depth:
            return None
        top = self.frames[0]
        if not (isinstance(e.value, ast.Name) and top.self_name and e.value.id == top.self_name and self._is_self(e.value.id, st)
                and isinstance(e.ctx, ast.Load) and e.attr in self.props and e.attr not in self.keep_props):
            return None
        m, fn, owner = self.methods[e.attr]
        if self._active(fn) or any(au.src(d) == "abstractmethod" for d in fn.decorator_list):
            return None
        return m, fn, owner

    # ------------------------------------------------------------------ calls
    def _callee(self, call, st):
        """(kind, fn node, first argument or None, module name, owner class, closure env) of a call that is expanded, else None"""
        if getattr(call, "_noinline", False) or len(self.frames) > self.depth:
            return None
        if any(isinstance(a, ast.Starred) for a in call.args) or any(k.arg is None for k in call.keywords):
            return None
        f = call.func
        fr = self.frames[-1]
        if au.call_tail(call) in self.skip:
            return None
        if isinstance(f, ast.Lambda):
            return ("lambda", f, None, fr.modname, None, None)
        if isinstance(f, ast.Name):
            v = st.env.get(f.id)
            if isinstance(v, Fn):
                return ("local", v.fn, None, fr.modname, fr.owner, v.closure)
            if f.id in st.env:
                return None
            r = self.repo.resolve_func(fr.modname, f.id)
            if r and r[1] is not None and not self._active(r[1]):
                m, fn = r
                if self._may_inline(m.name, fn, f.id):
                    return ("func", fn, None, m.name, None, None)
            return None
        if isinstance(f, ast.Attribute):
            top = self.frames[0]
            if isinstance(f.value, ast.Name) and top.self_name and f.value.id == top.self_name and self._is_self(f.value.id, st) \
                    and f.attr in self.methods and f.attr not in self.props:
                m, fn, owner = self.methods[f.attr]
                if any(au.src(d) == "abstractmethod" for d in fn.decorator_list) or self._active(fn):
                    return None
                static = any(au.src(d) == "staticmethod" for d in fn.decorator_list)
                return ("method", fn, None if static else f.value, m.name, owner, None)
            # ClassName.method(self, ...) with a class of the MRO of `self`
            if isinstance(f.value, ast.Name) and top.self_name and (f.value.id not in st.env) and self.cls is not None and call.args \
                    and isinstance(call.args[0], ast.Name) and call.args[0].id == top.self_name and f.attr not in self.props:
                for m, c in self.repo.mro(self.mod, self.cls) + self._siblings():
                    if c.name == f.value.id:
                        for stx in c.body:
                            if isinstance(stx, ast.FunctionDef) and stx.name == f.attr and not self._active(stx) \
                                    and not any(au.src(d) in ("staticmethod", "classmethod", "abstractmethod") for d in stx.decorator_list):
                                return ("method", stx, None, m.name, c, None)
            if isinstance(f.value, ast.Call) and isinstance(f.value.func, ast.Name) and f.value.func.id == "super" and not f.value.args \
                    and fr.owner is not None and self.cls is not None and top.self_name:
                mro = self.repo.mro(self.mod, self.cls)
                idx = [i for i, (m, c) in enumerate(mro) if c is fr.owner]
                if idx:
                    for m, c in mro[idx[0] + 1:]:
                        for stx in c.body:
                            if isinstance(stx, ast.FunctionDef) and stx.name == f.attr and not self._active(stx):
                                return ("method", stx, name(top.self_name), m.name, c, None)
        return None

    def _is_self(self, nm, st):
        """the name denotes the receiver of the function being read (also inside an expanded method, where `self` is bound to itself)"""
        v = st.env.get(nm)
        return v is None or (isinstance(v, ast.Name) and v.id == nm)

    def _siblings(self):
        """classes of the same module that share a base with the class of `self` (a method borrowed from a sibling class)"""
        if self.cls is None:
            return []
        mine = {id(c) for m, c in self.repo.mro(self.mod, self.cls)[1:]}
        out = []
        for q, c in self.mod.classes.items():
            if c is self.cls or "." in q:
                continue
            if any(id(bc) in mine for bm, bc in self.repo.mro(self.mod, c)[1:]):
                out.append((self.mod, c))
        return out

    def _active(self, fn):
        return any(fr.fn is fn for fr in self.frames)

    def _may_inline(self, modname, fn, nm):
        if nm in self.inline_names:
            return True
        if self.policy is not None:
            return bool(self.policy(modname, fn, nm))
        return modname == self.frames[0].modname and nm.startswith("_")

    def _bind(self, args, call, first):
        params = [x.arg for x in args.posonlyargs + args.args]
        pos = ([first] if first is not None else []) + list(call.args)
        m = {}
        if len(pos) > len(params):
            if not args.vararg:
                return None
            m[args.vararg.arg] = ast.Tuple(elts=pos[len(params):], ctx=ast.Load())
            pos = pos[:len(params)]
        elif args.vararg:
            m[args.vararg.arg] = ast.Tuple(elts=[], ctx=ast.Load())
        for p, a in zip(params, pos):
            m[p] = a
        kwonly = [x.arg for x in args.kwonlyargs]
        extra = {}
        for k in call.keywords:
            if k.arg in params or k.arg in kwonly:
                if k.arg in m:
                    return None
                m[k.arg] = k.value
            elif args.kwarg:
                extra[k.arg] = k.value
            else:
                return None
        if args.kwarg:
            m[args.kwarg.arg] = ast.Dict(keys=[const(k) for k in extra], values=list(extra.values()))
        nd = len(args.defaults)
        for i, p in enumerate(params):
            if p not in m:
                j = i - (len(params) - nd)
                if j < 0:
                    return None
                m[p] = clone(args.defaults[j])
        for p, d in zip(kwonly, args.kw_defaults):
            if p not in m:
                if d is None:
                    return None
                m[p] = clone(d)
        return m

    def _inline(self, call, st, forced=None):
        """[(state, return value)] of an expandable call (arguments are already resolved)"""
        kind, fn, first, modname, owner, closure = forced or self._callee(call, st)
        m = self._bind(fn.args, call, first)
        if m is None:
            c2 = clone(call)
            c2._noinline = True
            return [(st, c2)]
        caller_env = st.env
        if kind == "lambda":
            s2 = st.copy()
            s2.env = dict(m)
            self.frames.append(Frame(modname, fn, self.frames[-1].owner, None))
            try:
                res = self._expr(fn.body, s2)
            finally:
                self.frames.pop()
            out = []
            for s3, v in res:
                s3.env = dict(caller_env)
                out.append((s3, v))
            return out
        s2 = st.copy()
        s2.env = dict(closure or {})
        s2.env.update(m)
        self.frames.append(Frame(modname, fn, owner, None))
        try:
            ends = self._block(fn.body, [s2])
        finally:
            self.frames.pop()
        out = []
        for s3 in ends:
            s3.env = dict(caller_env)
            if s3.end == "raise":
                out.append((s3, None))
                continue
            rv = s3.ret if s3.end == "return" else None
            s3.end, s3.ret = "fall", None
            out.append((s3, rv))
        return out

    # ------------------------------------------------------------------ conditions
    def _assume(self, st, alt):
        """add the atoms of one alternative to the path; False when the path is infeasible"""
        for atom, pol in alt:
            atom, pol = au.strip_not(atom, pol)
            v = fold(atom)
            if v is None and self.fold_hook is not None:
                v = self.fold_hook(atom)
            if v is not None:
                if v != pol:
                    return False
                continue
            k, nk = canon(atom, pol), canon(atom, not pol)
            if nk in st.ckeys:
                return False
            if k in st.ckeys:
                continue
            st.ckeys.add(k)
            st.conds.append((atom, pol))
        return True

    def _branches(self, test, st):
        """[(state, polarity)] for a statement-level test"""
        out = []
        for s1, t in self._expr(test, st):
            if s1.end == "raise":
                out.append((s1, None))
                continue
            for pol in (True, False):
                for alt in split_cond(t, pol):
                    s2 = s1.copy()
                    if self._assume(s2, alt):
                        out.append((s2, pol))
        return out

    # ------------------------------------------------------------------ statements
    def _event(self, st, kind, node, a=None, b=None, c=None):
        ev = Event(kind, node, a, b, c, len(st.conds))
        st.events.append(ev)
        return ev

    def _invalidate(self, st, key, sub_only=False):
        for k in [k for k in st.heap if (k.startswith(key + ".") or k.startswith(key + "[") or (k == key and not sub_only))]:
            del st.heap[k]

    def _store(self, st, node, target, value):
        """target: resolved Attribute / Subscript"""
        self._event(st, "store", node, target, value)
        if is_path(target):
            k = src(target)
            self._invalidate(st, k)
            if isinstance(target, ast.Subscript):
                self._invalidate(st, src(target.value), sub_only=True)
            st.heap[k] = value

    def _target(self, t, st):
        """resolved form of a store target (its base and index are read, the node itself is not)"""
        t = clone(t)
        if isinstance(t, ast.Attribute):
            t.value = self.resolve(t.value, st)
        elif isinstance(t, ast.Subscript):
            t.value = self.resolve(t.value, st)
            t.slice = self.resolve(t.slice, st)
        t.ctx = ast.Load()
        return t

    def _touch_local(self, st, base, how):
        """a local name bound to an object built in the function (a call, a display) is modified through `name[...] = v`, `name.attr = v`
        or a mutating method: later reads of the name must not look like the value it was bound to"""
        while isinstance(base, ast.Subscript):
            base = base.value
        if isinstance(base, ast.Name) and base.id in st.env:
            old = st.env[base.id]
            if isinstance(old, Fn) or is_path(old):
                return
            if not (isinstance(old, ast.Call) and isinstance(old.func, ast.Name) and old.func.id == "__after__"):
                st.env[base.id] = ast.Call(func=name("__after__"), args=[old, const(how)], keywords=[])

    def _assign(self, st, node, target, value):
        if isinstance(target, ast.Name):
            st.env[target.id] = value
        elif isinstance(target, (ast.Tuple, ast.List)):
            if isinstance(value, (ast.Tuple, ast.List)) and len(value.elts) == len(target.elts) \
                    and not any(isinstance(x, ast.Starred) for x in list(value.elts) + list(target.elts)):
                for t, v in zip(target.elts, value.elts):
                    self._assign(st, node, t, v)
            else:
                for i, t in enumerate(target.elts):
                    if isinstance(t, ast.Starred):
                        st.notes.append("starred unpacking")
                        continue
                    self._assign(st, node, t, ast.Subscript(value=value, slice=const(i), ctx=ast.Load()))
        elif isinstance(target, (ast.Attribute, ast.Subscript)):
            tgt_ = self._target(target, st)
            self._store(st, node, tgt_, value)
            if isinstance(target, ast.Subscript):
                b_ = target.value
                if isinstance(b_, ast.Name) and b_.id in st.env and not is_path(st.env[b_.id]) and not isinstance(st.env[b_.id], Fn) \
                        and isinstance(tgt_.slice, (ast.Compare, ast.BoolOp, ast.UnaryOp)) and isinstance(value, ast.Constant):
                    # boolean-mask assignment of a constant on a local array: `v[v == 0] = c`  is  `v = np.where(v == 0, c, v)`
                    old_ = st.env[b_.id]
                    st.env[b_.id] = ast.Call(func=ast.Attribute(value=name("np"), attr="where", ctx=ast.Load()), args=[tgt_.slice, value, clone(old_)], keywords=[])
                else:
                    self._touch_local(st, target.value, "store")     # content of a local array / list (attributes are tracked exactly by the heap)
        else:
            st.notes.append(f"assignment target {type(target).__name__}")

    def _stmt(self, stmt, st):
        self.count += 1
        if isinstance(stmt, (ast.Pass, ast.Global, ast.Nonlocal, ast.Import, ast.ImportFrom)):
            return [st]
        if isinstance(stmt, ast.Expr):
            v = stmt.value
            if isinstance(v, ast.Constant):
                return [st]
            if isinstance(v, (ast.Yield, ast.YieldFrom)):
                out = []
                for s1, e in self._expr(v.value, st):
                    if s1.end == "fall":
                        self._event(s1, "yield", stmt, e)
                    out.append(s1)
                return out
            if isinstance(v, (ast.ListComp, ast.SetComp)) and len(v.generators) == 1 and not v.generators[0].is_async:
                # a comprehension run for its effects: `[f(x) for x in it if c]`  ==  `for x in it: if c: f(x)`
                g = v.generators[0]
                inner = ast.Expr(value=v.elt)
                for t in reversed(g.ifs):
                    inner = ast.If(test=t, body=[inner], orelse=[])
                loop = ast.For(target=g.target, iter=g.iter, body=[inner], orelse=[], lineno=getattr(stmt, "lineno", 0), col_offset=0)
                ast.fix_missing_locations(loop)
                return self._loop(loop, st)
            out = []
            for s1, e in self._expr(v, st):
                if s1.end != "fall" or e is None:
                    out.append(s1)
                    continue
                if isinstance(e, ast.Call) and isinstance(e.func, ast.Name) and e.func.id == "setattr" and len(e.args) == 3 \
                        and isinstance(e.args[1], ast.Constant) and isinstance(e.args[1].value, str):
                    self._store(s1, stmt, ast.Attribute(value=e.args[0], attr=e.args[1].value, ctx=ast.Load()), e.args[2])
                elif isinstance(e, ast.Call):
                    self._event(s1, "call", stmt, e)
                    if isinstance(v, ast.Call) and isinstance(v.func, ast.Attribute) and v.func.attr in MUTATORS and isinstance(v.func.value, ast.Name) \
                            and v.func.value.id in s1.env and not is_path(s1.env[v.func.value.id]) and not isinstance(s1.env[v.func.value.id], Fn):
                        nm_, old_ = v.func.value.id, s1.env[v.func.value.id]
                        if v.func.attr == "append" and len(e.args) == 1 and isinstance(old_, (ast.List, ast.BinOp)):
                            s1.env[nm_] = ast.BinOp(left=old_, op=ast.Add(), right=ast.List(elts=[e.args[0]], ctx=ast.Load()))
                        elif v.func.attr == "extend" and len(e.args) == 1 and isinstance(old_, (ast.List, ast.BinOp)):
                            s1.env[nm_] = ast.BinOp(left=old_, op=ast.Add(), right=e.args[0])
                        else:
                            self._touch_local(s1, v.func.value, v.func.attr)
                    if isinstance(e.func, ast.Attribute) and is_path(e.func.value):
                        k = src(e.func.value)
                        self._invalidate(s1, k, sub_only=True)
                        if e.func.attr in MUTATORS and not isinstance(e.func.value, ast.Name):
                            pass
                        if e.func.attr in MUTATORS and not isinstance(e.func.value, ast.Name):
                            # the object changes: later reads of the same path must not look like the value before the call
                            old = s1.heap.get(k, e.func.value)
                            if e.func.attr == "append" and len(e.args) == 1:
                                s1.heap[k] = ast.BinOp(left=clone(old), op=ast.Add(), right=ast.List(elts=[e.args[0]], ctx=ast.Load()))
                            elif e.func.attr == "extend" and len(e.args) == 1:
                                s1.heap[k] = ast.BinOp(left=clone(old), op=ast.Add(), right=e.args[0])
                            else:
                                s1.heap[k] = ast.Call(func=name("__after__"), args=[clone(old), const(e.func.attr)], keywords=[])
                elif isinstance(e, COMPS + (ast.Await, ast.BoolOp, ast.IfExp, ast.BinOp, ast.Compare)) and any(isinstance(n, ast.Call) for n in ast.walk(e)):
                    self._event(s1, "other", stmt, e)        # an expression statement with calls in it (comprehension run for its effects ...)
                out.append(s1)
            return out
        if isinstance(stmt, (ast.Assign, ast.AnnAssign)):
            if isinstance(stmt, ast.AnnAssign) and stmt.value is None:
                return [st]
            targets = stmt.targets if isinstance(stmt, ast.Assign) else [stmt.target]
            out = []
            for s1, v in self._expr(stmt.value, st):
                if s1.end == "fall":
                    for t in targets:
                        self._assign(s1, stmt, t, v)
                out.append(s1)
            return out
        if isinstance(stmt, ast.AugAssign):
            out = []
            for s1, v in self._expr(stmt.value, st):
                if s1.end != "fall":
                    out.append(s1)
                    continue
                t = stmt.target
                if isinstance(t, ast.Name):
                    old = s1.env.get(t.id)
                    if old is not None and not isinstance(old, Fn) and isinstance(old, (ast.Attribute, ast.Subscript, ast.Call)):
                        self._event(s1, "aug", stmt, clone(old), v, stmt.op)       # in-place operation on the object the name refers to
                        if isinstance(old, ast.Call):
                            s1.env[t.id] = ast.BinOp(left=clone(old), op=stmt.op, right=v)   # a value built by a call: later reads see the updated value
                    else:
                        self._event(s1, "aug", stmt, name(t.id), v, stmt.op)
                        s1.env[t.id] = ast.BinOp(left=clone(old) if old is not None else name(t.id), op=stmt.op, right=v)
                else:
                    tg = self._target(t, s1)
                    self._event(s1, "aug", stmt, tg, v, stmt.op)
                    if isinstance(t, ast.Subscript):
                        self._touch_local(s1, t.value, "store")
                    if is_path(tg):
                        k = src(tg)
                        old = s1.heap.get(k)
                        self._invalidate(s1, k)
                        s1.heap[k] = ast.BinOp(left=clone(old) if old is not None else clone(tg), op=stmt.op, right=v)
                out.append(s1)
            return out
        if isinstance(stmt, ast.Return):
            out = []
            for s1, v in self._expr(stmt.value, st):
                if s1.end == "fall":
                    s1.end, s1.ret = "return", v
                    s1.retnode = stmt
                out.append(s1)
            return out
        if isinstance(stmt, ast.Raise):
            out = []
            for s1, v in self._expr(stmt.exc, st):
                if s1.end == "fall":
                    self._event(s1, "raise", stmt, v)
                    s1.end = "raise"
                out.append(s1)
            return out
        if isinstance(stmt, ast.Continue):
            st.end = "continue"
            return [st]
        if isinstance(stmt, ast.Break):
            st.end = "break"
            return [st]
        if isinstance(stmt, ast.If):
            out = []
            for s1, pol in self._branches(stmt.test, st):
                if pol is None:
                    out.append(s1)
                else:
                    out.extend(self._block(stmt.body if pol else stmt.orelse, [s1]))
            return out
        if isinstance(stmt, ast.Assert):
            out = []
            for s1, t in self._expr(stmt.test, st):
                if s1.end == "fall":
                    self._event(s1, "assert", stmt, t)
                out.append(s1)
            return out
        if isinstance(stmt, (ast.FunctionDef, ast.AsyncFunctionDef)):
            st.env[stmt.name] = Fn(stmt, dict(st.env))
            return [st]
        if isinstance(stmt, ast.ClassDef):
            return [st]
        if isinstance(stmt, ast.Delete):
            for t in stmt.targets:
                if isinstance(t, ast.Name):
                    st.env.pop(t.id, None)
                else:
                    tg = self._target(t, st)
                    self._event(st, "del", stmt, tg)
                    if is_path(tg):
                        self._invalidate(st, src(tg))
            return [st]
        if isinstance(stmt, (ast.With, ast.AsyncWith)):
            states = [st]
            for it in stmt.items:
                nxt = []
                for s0 in states:
                    for s1, e in self._expr(it.context_expr, s0):
                        if s1.end == "fall":
                            self._event(s1, "call", stmt, e)
                            if it.optional_vars is not None:
                                self._assign(s1, stmt, it.optional_vars, e)
                        nxt.append(s1)
                states = nxt
            return self._block(stmt.body, states)
        if isinstance(stmt, ast.Try):
            out = []
            body = self._block(stmt.body, [st.copy()])
            for s1 in body:
                if s1.end == "fall" and stmt.orelse:
                    out.extend(self._block(stmt.orelse, [s1]))
                else:
                    out.append(s1)
            for h in stmt.handlers:
                s2 = st.copy()
                s2.conds.append((ast.Call(func=name("__except__"), args=[h.type] if h.type is not None else [], keywords=[]), True))
                if h.name:
                    s2.env.pop(h.name, None)
                out.extend(self._block(h.body, [s2]))
            if stmt.finalbody:
                res = []
                for s1 in out:
                    if s1.end == "fall":
                        res.extend(self._block(stmt.finalbody, [s1]))
                    else:
                        end, ret = s1.end, s1.ret
                        s1.end = "fall"
                        for s2 in self._block(stmt.finalbody, [s1]):
                            if s2.end == "fall":
                                s2.end, s2.ret = end, ret
                            res.append(s2)
                out = res
            return out
        if isinstance(stmt, (ast.For, ast.AsyncFor, ast.While)):
            return self._loop(stmt, st)
        if hasattr(ast, "Match") and isinstance(stmt, ast.Match):
            return self._match(stmt, st)
        st.notes.append(f"statement {type(stmt).__name__} not read")
        self._event(st, "other", stmt, None)
        return [st]

    # ------------------------------------------------------------------ match
    def _match(self, stmt, st):
        """`match subject: case P1: ... case P2: ...` read as a chain of tests `__match__(subject, 'P')` (value / class / or-patterns are kept
        as text; a capture pattern binds its name to the subject; `case _` is the else branch)"""
        out = []
        for s1, subj in self._expr(stmt.subject, st):
            if s1.end != "fall":
                out.append(s1)
                continue
            live = [s1]
            for case in stmt.cases:
                pat = case.pattern
                wildcard = isinstance(pat, ast.MatchAs) and pat.pattern is None and case.guard is None
                nxt = []
                for s in live:
                    if wildcard:
                        s2 = s.copy()
                        if pat.name:
                            s2.env[pat.name] = subj
                        out.extend(self._block(case.body, [s2]))
                        continue
                    atom = self._pattern_test(subj, pat)
                    test = atom if case.guard is None else ast.BoolOp(op=ast.And(), values=[atom, case.guard])
                    for s2, pol in self._branches(test, s):
                        if pol is None:
                            out.append(s2)
                        elif pol:
                            for nm in [n.name for n in ast.walk(pat) if isinstance(n, (ast.MatchAs, ast.MatchStar)) and n.name]:
                                s2.env.pop(nm, None)
                            out.extend(self._block(case.body, [s2]))
                        else:
                            nxt.append(s2)
                live = [] if wildcard else nxt
            out.extend(live)
        return out

    def _pattern_test(self, subj, pat):
        """value / singleton / or-patterns are ordinary comparisons; anything else is kept as an opaque test"""
        if isinstance(pat, ast.MatchValue):
            return ast.Compare(left=clone(subj), ops=[ast.Eq()], comparators=[self.resolve(pat.value, State())])
        if isinstance(pat, ast.MatchSingleton):
            return ast.Compare(left=clone(subj), ops=[ast.Is()], comparators=[const(pat.value)])
        if isinstance(pat, ast.MatchOr) and all(isinstance(q, (ast.MatchValue, ast.MatchSingleton)) for q in pat.patterns):
            return ast.BoolOp(op=ast.Or(), values=[self._pattern_test(subj, q) for q in pat.patterns])
        if isinstance(pat, ast.MatchSequence) and isinstance(subj, (ast.Tuple, ast.List)) and len(subj.elts) == len(pat.patterns) \
                and all(isinstance(q, (ast.MatchValue, ast.MatchSingleton)) or (isinstance(q, ast.MatchAs) and q.pattern is None and q.name is None) for q in pat.patterns):
            tests = [self._pattern_test(x, q) for x, q in zip(subj.elts, pat.patterns) if not isinstance(q, ast.MatchAs)]
            return ast.BoolOp(op=ast.And(), values=tests) if len(tests) > 1 else (tests[0] if tests else const(True))
        return ast.Call(func=name("__match__"), args=[clone(subj), const(ast.unparse(pat))], keywords=[])

    # ------------------------------------------------------------------ loops
    def static_iter(self, it, st, depth=0):
        """elements of an iterable that is a literal table, else None"""
        if depth > 4:
            return None
        if isinstance(it, (ast.Tuple, ast.List, ast.Set)):
            if any(isinstance(x, ast.Starred) for x in it.elts):
                return None
            return list(it.elts)
        if isinstance(it, ast.Dict):
            return None if any(k is None for k in it.keys) else list(it.keys)
        if isinstance(it, ast.BinOp) and isinstance(it.op, ast.Add):
            a, b = self.static_iter(it.left, st, depth + 1), self.static_iter(it.right, st, depth + 1)
            return None if a is None or b is None else a + b
        if isinstance(it, ast.Name):
            v = self.constant(it.id, None)
            return self.static_iter(v, st, depth + 1) if v is not None else None
        if isinstance(it, ast.Attribute) and isinstance(it.value, ast.Name):
            v = self.constant(it.attr, it.value.id)
            return self.static_iter(v, st, depth + 1) if v is not None else None
        if isinstance(it, ast.Subscript) and isinstance(it.slice, ast.Constant):
            d = self._literal_of(it.value)
            if isinstance(d, ast.Dict) and all(isinstance(k, ast.Constant) for k in d.keys):
                for k, v in zip(d.keys, d.values):
                    if k.value == it.slice.value:
                        return self.static_iter(v, st, depth + 1)
            return None
        if isinstance(it, ast.Call) and not it.keywords:
            t = au.call_tail(it)
            if isinstance(it.func, ast.Attribute) and t == "get" and 1 <= len(it.args) <= 2 and isinstance(it.args[0], ast.Constant):
                d = self._literal_of(it.func.value)
                if isinstance(d, ast.Dict) and all(isinstance(k, ast.Constant) for k in d.keys):
                    for k, v in zip(d.keys, d.values):
                        if k.value == it.args[0].value:
                            return self.static_iter(v, st, depth + 1)
                    return self.static_iter(it.args[1], st, depth + 1) if len(it.args) == 2 else None
                return None
            if isinstance(it.func, ast.Attribute) and t in ("items", "keys", "values") and not it.args:
                d = it.func.value
                if isinstance(d, ast.Name):
                    d = self.constant(d.id, None)
                elif isinstance(d, ast.Attribute) and isinstance(d.value, ast.Name):
                    d = self.constant(d.attr, d.value.id)
                if isinstance(d, ast.Dict) and all(k is not None for k in d.keys):
                    if t == "items":
                        return [ast.Tuple(elts=[k, v], ctx=ast.Load()) for k, v in zip(d.keys, d.values)]
                    return list(d.keys) if t == "keys" else list(d.values)
                return None
            if isinstance(it.func, ast.Name):
                if t == "enumerate" and len(it.args) == 1:
                    xs = self.static_iter(it.args[0], st, depth + 1)
                    return None if xs is None else [ast.Tuple(elts=[const(i), x], ctx=ast.Load()) for i, x in enumerate(xs)]
                if t == "zip" and it.args:
                    cols = [self.static_iter(a, st, depth + 1) for a in it.args]
                    if any(c is None for c in cols):
                        return None
                    return [ast.Tuple(elts=list(r), ctx=ast.Load()) for r in zip(*cols)]
                if t in ("list", "tuple", "sorted", "iter") and len(it.args) == 1 and t != "sorted":
                    return self.static_iter(it.args[0], st, depth + 1)
                if t == "range" and 1 <= len(it.args) <= 3 and all(isinstance(au.const(a), int) for a in it.args):
                    r = range(*[au.const(a) for a in it.args])
                    return [const(i) for i in r] if len(r) <= MAX_UNROLL else None
        return None

    def _literal_of(self, d):
        """the literal a name / class attribute is bound to (or the literal itself)"""
        if isinstance(d, ast.Name):
            return self.constant(d.id, None)
        if isinstance(d, ast.Attribute) and isinstance(d.value, ast.Name):
            return self.constant(d.attr, d.value.id)
        return d

    def constant(self, nm, base):
        """literal bound once to a module-level name (base None) or to a class-level name (base: self / cls / class name)"""
        fr = self.frames[-1] if self.frames else None
        modname = fr.modname if fr else self.mod.name
        mod = self.repo.modules.get(modname) or self.mod
        bodies = []
        if base is None:
            bodies.append(mod.tree.body)
            r = self.repo.resolve(modname, nm)
            if r and r[0] == "var" and r[1] in self.repo.modules and r[1] != mod.name:
                bodies = [self.repo.modules[r[1]].tree.body]
                nm = r[2]
        else:
            top = self.frames[0] if self.frames else None
            classes = []
            if top is not None and (base == top.self_name or base == "cls") and self.cls is not None:
                classes = [c for m, c in self.repo.mro(self.mod, self.cls)]
            elif fr is not None and fr.owner is not None and base in ("self", "cls"):
                classes = [fr.owner]
            else:
                for q, c in mod.classes.items():
                    if q.split(".")[-1] == base:
                        classes.append(c)
            bodies = [c.body for c in classes]
        found = []
        for body in bodies:
            for stx in body:
                if isinstance(stx, ast.Assign) and len(stx.targets) == 1 and isinstance(stx.targets[0], ast.Name) and stx.targets[0].id == nm:
                    found.append(stx.value)
                elif isinstance(stx, ast.AnnAssign) and isinstance(stx.target, ast.Name) and stx.target.id == nm and stx.value is not None:
                    found.append(stx.value)
            if found:
                break
        if len(found) == 1 and isinstance(found[0], (ast.Tuple, ast.List, ast.Set, ast.Dict, ast.Constant)):
            # a table that module-level / class-level code modifies after its definition (T.update(..), T[k] = v, T += ..) is not a constant
            for body in bodies:
                for stx in body:
                    if isinstance(stx, (ast.FunctionDef, ast.AsyncFunctionDef, ast.ClassDef)):
                        continue
                    for n in ast.walk(stx):
                        if isinstance(n, ast.Call) and isinstance(n.func, ast.Attribute) and isinstance(n.func.value, ast.Name) and n.func.value.id == nm \
                                and n.func.attr in MUTATORS:
                            return None
                        if isinstance(n, (ast.Subscript, ast.Attribute)) and isinstance(n.ctx, (ast.Store, ast.Del)) and isinstance(n.value, ast.Name) and n.value.id == nm:
                            return None
                        if isinstance(n, ast.AugAssign) and isinstance(n.target, ast.Name) and n.target.id == nm:
                            return None
            return found[0]
        return None

    def _summarise_loop(self, stmt, it, body, init, carried, tnames, s1, is_for):
        """values that are known after a `for` loop whatever its body does with the elements:
          * the index bound by `for i, x in enumerate(X[, start])` is `len(X) - 1 + start` (the index of the LAST element),
          * a name that every iteration advances by the same constant (`n += 1`) is `initial + c * len(X)`."""
        if not is_for or stmt.orelse:
            return
        if any(b.end in ("break", "return") for b in body):
            return
        seq, start = it, None
        if isinstance(it, ast.Call) and isinstance(it.func, ast.Name) and it.func.id == "enumerate" and it.args:
            seq = it.args[0]
            start = it.args[1] if len(it.args) > 1 else next((k.value for k in it.keywords if k.arg == "start"), const(0))
        elif isinstance(it, ast.Call) and isinstance(it.func, ast.Name) and it.func.id == "zip" and it.args:
            seq = it.args[0]
        n_items = ast.Call(func=name("len"), args=[clone(seq)], keywords=[])
        rebound = set()
        for s_ in au.stmts(stmt.body):
            for t_ in au.assign_targets(s_):
                rebound.update(au.assigned_names(t_))
        if start is not None and isinstance(stmt.target, ast.Tuple) and stmt.target.elts and isinstance(stmt.target.elts[0], ast.Name) \
                and stmt.target.elts[0].id not in rebound:
            s1.env[stmt.target.elts[0].id] = ast.BinOp(left=ast.BinOp(left=n_items, op=ast.Sub(), right=const(1)), op=ast.Add(), right=clone(start))
        from .. import sym as _sym
        live = [b for b in body if b.end in ("fall", "continue")]
        # objects (attribute paths) the body appends to: `k` items per iteration on every path -> old + k * len(X) items; any other
        # modification makes the object unknown after the loop
        touched = {}
        for b in body:
            per = {}
            for ev, _, lps in walk_events(b):
                if ev.kind == "call" and isinstance(ev.a.func, ast.Attribute) and ev.a.func.attr in MUTATORS and is_path(ev.a.func.value) \
                        and not isinstance(ev.a.func.value, ast.Name):
                    k = src(ev.a.func.value)
                    ok = ev.a.func.attr == "append" and len(ev.a.args) == 1 and not lps
                    per.setdefault(k, []).append(ev.a.args[0] if ok else None)
                elif ev.kind == "aug" and is_path(ev.a) and not isinstance(ev.a, ast.Name):
                    per.setdefault(src(ev.a), []).append(None)
            for k, items in per.items():
                touched.setdefault(k, []).append((b, items))
        for k, lst in touched.items():
            old = s1.heap.get(k, ast.parse(k, mode="eval").body)
            regular = len(lst) == len(body) and all(b.end in ("fall", "continue") for b, _ in lst) and all(None not in items for _, items in lst) \
                and len({len(items) for _, items in lst}) == 1
            if regular:
                s1.heap[k] = ast.BinOp(left=clone(old), op=ast.Add(),
                                       right=ast.Call(func=name("__repeat__"), args=[ast.List(elts=list(lst[0][1]), ctx=ast.Load()), n_items], keywords=[]))
            else:
                s1.heap[k] = ast.Call(func=name("__after__"), args=[clone(old), const("loop")], keywords=[])
        for nm in carried - tnames:
            i0 = init.get(nm)
            if i0 is None or isinstance(i0, Fn) or not live:
                continue
            steps = set()
            for b in live:
                fin = b.env.get(nm)
                if fin is None:
                    steps.add(0)
                    continue
                try:
                    d = _sym.to_poly(fin, opaque=False) - _sym.Poly.atom(nm)
                except _sym.NotPoly:
                    steps.add(None)
                    continue
                steps.add(int(d.const_value()) if d.is_const() and d.const_value().denominator == 1 else None)
            if len(steps) == 1 and None not in steps:
                c = steps.pop()
                if c == 0:
                    s1.env[nm] = i0
                else:
                    term = n_items if c == 1 else ast.BinOp(left=const(c), op=ast.Mult(), right=n_items)
                    s1.env[nm] = ast.BinOp(left=clone(i0), op=ast.Add(), right=term)

    def _loop(self, stmt, st):
        is_for = not isinstance(stmt, ast.While)
        out = []
        heads = self._expr(stmt.iter if is_for else stmt.test, st)
        for s1, it in heads:
            if s1.end != "fall":
                out.append(s1)
                continue
            elems = self.static_iter(it, s1) if (is_for and self.unroll) else None
            if elems is not None and len(elems) <= MAX_UNROLL and not stmt.orelse:
                live, done = [s1], []
                for el in elems:
                    for s in live:
                        self._assign(s, stmt, stmt.target, clone(el))
                    nxt = []
                    for s in self._block(stmt.body, live):
                        if s.end == "continue":
                            s.end = "fall"
                        if s.end == "fall":
                            nxt.append(s)
                        else:
                            if s.end == "break":
                                s.end = "fall"
                            done.append(s)
                    live = nxt
                    if len(live) + len(done) > LIMIT:
                        raise TooComplex("too many paths in an unrolled loop")
                out.extend(live + done)
                continue
            # symbolic loop: one iteration of the body from a state where everything the body assigns is unknown
            carried = set()
            for s in au.stmts(stmt.body):
                for t in au.assign_targets(s):
                    carried.update(au.assigned_names(t))
                if isinstance(s, (ast.For, ast.AsyncFor)):
                    carried.update(au.assigned_names(s.target))
                for n in au.walk(s):
                    if isinstance(n, ast.NamedExpr):
                        carried.add(n.target.id)
            tnames = set(au.assigned_names(stmt.target)) if is_for else set()
            init = {n: s1.env.get(n) for n in carried}
            b0 = State()
            b0.env = {k: v for k, v in s1.env.items() if k not in carried and k not in tnames}
            b0.heap = dict(s1.heap)
            b0.ckeys = set(s1.ckeys)
            if not is_for:
                b0s = []
                for alt in split_cond(it, True):
                    b = b0.copy()
                    if self._assume(b, alt):
                        b0s.append(b)
            else:
                b0s = [b0]
            body = self._block(stmt.body, b0s)
            for b in body:
                b.ckeys = set()
            self._event(s1, "loop", stmt, it, stmt.target if is_for else None, Loop(stmt, it, stmt.target if is_for else None, body, init, carried))
            for n in carried | tnames:
                s1.env.pop(n, None)
            self._summarise_loop(stmt, it, body, init, carried, tnames, s1, is_for)
            # stores made by the body are not known after the loop
            for n_ in ast.walk(ast.Module(body=list(stmt.body), type_ignores=[])):
                tgt_ = None
                if isinstance(n_, (ast.Assign, ast.AugAssign, ast.AnnAssign)):
                    for t_ in au.assign_targets(n_):
                        if isinstance(t_, ast.Subscript):
                            self._touch_local(s1, t_.value, "store")
                elif isinstance(n_, ast.Call) and isinstance(n_.func, ast.Attribute) and n_.func.attr in MUTATORS and isinstance(n_.func.value, ast.Name):
                    self._touch_local(s1, n_.func.value, n_.func.attr)
            for b in body:
                for ev, _, _ in walk_events(b):
                    if ev.kind in ("store", "aug", "del") and isinstance(ev.a, ast.AST) and is_path(ev.a):
                        self._invalidate(s1, src(ev.a))
                        if isinstance(ev.a, ast.Subscript):
                            self._invalidate(s1, src(ev.a.value), sub_only=True)
            if stmt.orelse:
                out.extend(self._block(stmt.orelse, [s1]))
            else:
                out.append(s1)
        return out


# ------------------------------------------------------------------------------------------------ conveniences for rules
def paths_of(repo, modname, qualname, cls=None, **kw):
    """paths of a function / method; `cls` defaults to the class the method is defined in"""
    fn = repo.func(modname, qualname)
    if cls is None and "." in qualname and "<locals>" not in qualname:
        cls = qualname.rsplit(".", 1)[0]
        if cls not in repo.module(modname).classes:
            cls = None
    sx = SX(repo, modname, cls, **kw)
    return fn, sx, sx.run(fn)


def mentions(e, pred):
    return any(pred(n) for n in ast.walk(e)) if isinstance(e, ast.AST) else False


def neutral(node, keep):
    """source text of `node` with every name that is not in `keep` (parameters, module-level names, builtins) replaced by a
    placeholder v1, v2 ... in order of appearance: texts used in finding keys must not depend on how a local variable is called"""
    import builtins
    if node is None:
        return "None"
    node = clone(node)
    ren = {}
    for n in au.walk_ordered(node) if not isinstance(node, (ast.Lambda,)) else ast.walk(node):
        pass
    for n in ast.walk(node):
        if isinstance(n, ast.Name) and n.id not in keep and not hasattr(builtins, n.id):
            ren.setdefault(n.id, None)
    # order of first appearance in the text
    text = src(node)
    order_ = sorted(ren, key=lambda k: (text.find(k) if text.find(k) >= 0 else 10 ** 9, k))
    for i, k in enumerate(order_):
        ren[k] = f"v{i + 1}"
    for n in ast.walk(node):
        if isinstance(n, ast.Name) and n.id in ren:
            n.id = ren[n.id]
        elif isinstance(n, ast.arg) and n.arg in ren:
            n.arg = ren[n.arg]
    return src(node)


def keep_names(repo, modname, fn):
    """names whose spelling is part of the interface: parameters of `fn`, names bound at module level"""
    keep = set(au.params(fn)) | {"self", "cls"}
    mod = repo.module(modname)
    for st in mod.tree.body:
        for t in au.assign_targets(st):
            keep.update(au.assigned_names(t))
        if isinstance(st, (ast.FunctionDef, ast.ClassDef)):
            keep.add(st.name)
        elif isinstance(st, (ast.Import, ast.ImportFrom)):
            for a in st.names:
                keep.add((a.asname or a.name).split(".")[0])
    for n in ast.walk(mod.tree):
        if isinstance(n, (ast.Import, ast.ImportFrom)):
            for a in n.names:
                keep.add((a.asname or a.name).split(".")[0])
    exp = getattr(repo, "_exports", {}).get(mod.name, {})
    keep.update(exp)
    return keep
