"""C11: AABB.distance (the lower bound both queries prune with) and KDTree.is_leaf."""
from __future__ import annotations
import ast
from .. import au, sym
from . import hg_symex as S
from .hg_kd_build import Verdicts
from .hg_kd_query import is_inf

KD = "spatial.kdtree"
BOX = "geometry.aabb"


def box_distance(ctx):
    repo = ctx.repo
    fn = repo.func(BOX, "AABB.distance")
    site = ctx.site(BOX, fn)
    ex = S.Exec(repo, BOX, "AABB", opaque={"is_empty", "contains_point"})
    try:
        states = [s for s in ex.run(fn) if s.end != "raise"]
    except (S.GiveUp, RecursionError) as e:
        ctx.undecided("C11-D1", site, "AABB.distance is too branchy for path enumeration", str(e))
        return
    ps = au.params(fn, skip_self=True)
    pt = ps[0] if ps else "pt"
    metric = ps[1] if len(ps) > 1 else None
    V = Verdicts(ctx, site)

    def atom(n):
        t = au.src(n)
        if t in ("self._p1", "self.mini"):
            return "lo"
        if t in ("self._p2", "self.maxi"):
            return "hi"
        if t == pt:
            return "p"
        return None

    def leaves_of(e, out):
        if isinstance(e, ast.Call) and au.call_tail(e) in ("maximum", "fmax") and len(e.args) == 2 and not e.keywords:
            leaves_of(e.args[0], out)
            leaves_of(e.args[1], out)
        elif isinstance(e, ast.Call) and au.call_tail(e) == "reduce" and len(e.args) in (2, 3) and not e.keywords \
                and (au.chain(e.args[0]) or ["?"])[-1] in ("maximum", "fmax") and isinstance(e.args[1], (ast.Tuple, ast.List)):
            for x in e.args[1].elts:
                leaves_of(x, out)
            if len(e.args) == 3:
                leaves_of(e.args[2], out)
        elif isinstance(e, ast.Call) and au.call_tail(e) in ("Vec", "asarray", "array", "asanyarray") and len(e.args) == 1 and not e.keywords:
            leaves_of(e.args[0], out)
        elif isinstance(e, ast.Call) and au.call_tail(e) == "where" and len(e.args) == 3 and not e.keywords and isinstance(e.args[0], ast.Compare) \
                and len(e.args[0].ops) == 1 and isinstance(e.args[0].ops[0], (ast.Gt, ast.GtE, ast.Lt, ast.LtE)):
            # np.where(a > b, a, b) is the element-wise maximum of a and b
            c = e.args[0]
            a, b_ = au.src(c.left), au.src(c.comparators[0])
            big, small = (a, b_) if isinstance(c.ops[0], (ast.Gt, ast.GtE)) else (b_, a)

            def same(x, t):
                return au.src(x) == t or (au.const(x) is not None and au.const(x) == au.const(ast.parse(t, mode="eval").body if t.replace(".", "").replace("-", "").isdigit() else ast.Constant(value=None)))
            if same(e.args[1], big) and same(e.args[2], small):
                leaves_of(e.args[1], out)
                leaves_of(e.args[2], out)
            else:
                out.append(e)
        else:
            out.append(e)

    def strip_vec(e):
        """Vec(x) / np.asarray(x) / np.array(x) of the point is the point"""
        class T(ast.NodeTransformer):
            def visit_Call(self, n):
                self.generic_visit(n)
                if au.call_tail(n) in ("Vec", "asarray", "array", "asanyarray") and len(n.args) == 1 and au.src(n.args[0]) == pt:
                    return n.args[0]
                return n
        return T().visit(sym.clone(e))

    want = {repr(sym.Poly.atom("lo") - sym.Poly.atom("p")), repr(sym.Poly.atom("p") - sym.Poly.atom("hi")), repr(sym.Poly())}
    for st in states:
        if st.end != "return" or st.ret is None:
            V.fail("form", "C11-D1", "AABB.distance has a path that returns nothing", "both queries compare the result with distances")
            continue
        ret = strip_vec(ex.expand(st.ret))
        if is_inf(ex, st.ret):
            V.fail("form", "C11-D1", "AABB.distance returns +infinity on some path instead of the distance to the box",
                   "the box distance must be a lower bound of the distance to every point of the box: a box judged infinitely far is pruned by both "
                   "queries although it holds points (e.g. flat boxes if the test is is_empty())")
            continue
        if not isinstance(ret, ast.Call):
            V.und("form", "C11-D1", "the value returned by AABB.distance is not recognised")
            continue
        tail = au.call_tail(ret)
        vec = ret.args[0] if ret.args else None
        if tail == "norm" and vec is not None:
            pass
        elif tail in ("dot", "vdot", "inner") and len(ret.args) == 2 and au.src(ret.args[0]) == au.src(ret.args[1]):
            ls = []
            leaves_of(ret.args[0], ls)
            if len(ls) >= 2:
                V.fail("form", "C11-D1", "AABB.distance returns the dot product of the gap vector with itself (the squared distance) on some path",
                       "queries compare the box distance with point distances and radii: a squared value over-estimates distances larger than 1 "
                       "and subtrees holding answers are pruned")
            else:
                V.und("form", "C11-D1", "the value returned by AABB.distance is not recognised")
            continue
        else:
            V.und("form", "C11-D1", "the value returned by AABB.distance is not norm(<gap vector>)")
            continue
        ls = []
        leaves_of(vec, ls)
        try:
            polys = {repr(sym.to_poly(x, atom_of=atom, opaque=False)) for x in ls}
        except sym.NotPoly:
            polys = None
        clip = None
        if polys is None and isinstance(vec, ast.BinOp) and isinstance(vec.op, ast.Sub):
            for a, b in ((vec.left, vec.right), (vec.right, vec.left)):
                if atom(a) == "p" and isinstance(b, ast.Call) and au.call_tail(b) == "clip" and len(b.args) == 3 \
                        and [atom(x) for x in b.args] == ["p", "lo", "hi"]:
                    clip = True
        if clip:
            V.ok("form", "C11-D1", "distance to the clamped point")
        elif polys is None:
            V.und("form", "C11-D1", "the gap vector of AABB.distance is not built from mini - pt, pt - maxi and 0 with np.maximum")
        elif polys == want:
            V.ok("form", "C11-D1", "clamped component-wise gap")
        else:
            V.fail("form", "C11-D1", "AABB.distance is not norm(max(mini - pt, pt - maxi, 0))",
                   f"operands of the maximum: {sorted(polys)} (lo = lower corner, hi = upper corner, p = point); the box distance must be a lower bound "
                   "of the distance to every point of the box and 0 inside it, otherwise both queries prune wrongly")
            continue
        # the metric is forwarded
        wh = ret.args[1] if len(ret.args) > 1 else next((kw.value for kw in ret.keywords if kw.arg == "which"), None)
        if wh is None or (metric is not None and au.src(wh) == metric):
            V.ok("metric", "C11-D1", "metric forwarded to norm")
        else:
            V.fail("metric", "C11-D1", "AABB.distance does not forward its metric argument to norm",
                   "pruning compares a box distance with point distances: they must be measured in the same norm")
    V.flush()
    # same default metric for point and box distance, and the k-d tree does not override it
    dfn = repo.resolve_func(KD, "distance")
    if dfn is None or dfn[1] is None:
        ctx.undecided("C11-D1", ctx.site(KD, "KDTree.query"), "`distance` used by the k-d tree does not resolve to a package function")
        return

    def default_of(f, name):
        a = f.args
        names = [x.arg for x in a.args]
        if name in names:
            i = names.index(name) - (len(names) - len(a.defaults))
            if i >= 0:
                return au.const(a.defaults[i])
        return None
    d1 = default_of(fn, metric) if metric else None
    dps = au.params(dfn[1])
    d2 = default_of(dfn[1], dps[2]) if len(dps) > 2 else None
    over = []
    for q in ("KDTree.query", "KDTree.query_radius"):
        if not repo.has_func(KD, q):
            continue
        for c in au.calls(repo.func(KD, q)):
            if au.call_tail(c) == "distance":
                is_box = isinstance(c.func, ast.Attribute)
                if (len(c.args) > (1 if is_box else 2)) or c.keywords:
                    over.append(au.src(c))
    if d1 is None or d2 is None:
        ctx.undecided("C11-D1", site, "default metric of the point distance / the box distance not recognised")
    else:
        ctx.check(d1 == d2 and not over, "C11-D1", site,
                  "point distance and box distance do not use the same metric in the k-d tree queries",
                  f"defaults {d2!r} / {d1!r}, overridden in {over}: pruning compares a box distance with point distances, they must be measured in the same norm",
                  note=f"same default metric {d1!r}")


def is_leaf(ctx):
    repo = ctx.repo
    if not repo.has_func(KD, "KDTree.is_leaf"):
        return
    fn = repo.func(KD, "KDTree.is_leaf")
    site = ctx.site(KD, fn)
    ps = au.params(fn, skip_self=True)
    ex = S.Exec(repo, KD, "KDTree")
    try:
        states = [s for s in ex.run(fn) if s.end != "raise"]
    except (S.GiveUp, RecursionError):
        ctx.undecided("C11-I1", site, "is_leaf is too branchy")
        return
    V = Verdicts(ctx, site)
    for st in states:
        o = ex.expand(st.ret) if st.ret is not None else None
        pol = True
        if o is not None:
            o, pol = au.strip_not(o, True)
        if isinstance(o, ast.Call) and au.call_tail(o) == "isinstance" and len(o.args) == 2 and ps \
                and au.src(o.args[0]) == f"self.nodes[{ps[0]}]":
            cls = (au.chain(o.args[1]) or ["?"])[-1]
            if (cls == "Leaf") == pol and cls in ("Leaf", "Node"):
                V.ok("isleaf", "C11-I1", "is_leaf tests the Leaf class")
            elif cls in ("Leaf", "Node"):
                V.fail("isleaf", "C11-I1", "is_leaf(i) answers True for inner nodes and False for leaves",
                       "both queries branch on it to decide between reading points and descending")
            else:
                V.und("isleaf", "C11-I1", "class tested by is_leaf not recognised")
        else:
            V.und("isleaf", "C11-I1", "is_leaf(i) is not an isinstance test of self.nodes[i]")
    V.flush()
