"""Path-sensitive extraction of the (row, col, value) entries an assembly loop emits (owned by the C07/C08 checker).

The entries of a sparse matrix are written in many spellings:

    rows[k], cols[k], vals[k], k = i, j, v, k + 1            data[k], rows[k], cols[k] = v, i, j ; k += 1
    vals[k] = v ; rows[k] = i ; cols[k] = j ; k = k + 1       rows[k + 1], cols[k + 1], vals[k + 1] = ... ; k += 4
    rows[3 * f + 1], cols[3 * f + 1], vals[3 * f + 1] = ...    rows.append(i) ; cols.append(j) ; vals.append(v)
    k = add(k, i, j, v)   (local closure)                     M[i, j] = v / M[i, j] += v / M[i, j] -= v   (lil matrix)

`Stencil(fn).paths(body)` walks every structured path of a loop body, keeps a symbolic environment (local names are replaced by the
expression they hold *on that path*: values chosen by an `if connection is None: w = .. else: w = ..` in front of the stores are
seen by the entry), tracks running slot counters, and groups the stores into `Entry` objects whatever the statement layout."""
from __future__ import annotations
import ast
from .. import au, sym
from ..sym import Poly
from . import he_norm
from .c0708 import coo_arrays, lil_names, add_helper


class Entry:
    __slots__ = ("row", "col", "val", "mode", "node", "slot", "counter", "offset")

    def __init__(self, row, col, val, mode, node, slot=None, counter=None, offset=None):
        self.row, self.col, self.val, self.mode, self.node, self.slot, self.counter, self.offset = row, col, val, mode, node, slot, counter, offset

    def __repr__(self):
        return f"({au.src(self.row)}, {au.src(self.col)}) {self.mode} {au.src(self.val)}"


class Path:
    def __init__(self):
        self.conds = []          # (test, polarity)
        self.items = []          # Entry | ("loop", For, [Path])
        self.problems = []       # (node, text): contradictions of the storage idiom itself (two entries at one slot ...)
        self.unclear = []        # (node, text): stores that could not be grouped into entries
        self.bumps = {}          # counter -> total advance on this path (direct statements only)
        self.stop = False

    @property
    def entries(self):
        return [x for x in self.items if isinstance(x, Entry)]

    @property
    def loops(self):
        return [x for x in self.items if isinstance(x, tuple) and x[0] == "loop"]


def consistent(conds):
    """drop paths that take both polarities of the same test"""
    seen = {}
    todo = list(conds)
    while todo:
        t, pol = todo.pop()
        t, pol = au.strip_not(t, pol)
        if isinstance(t, ast.BoolOp) and ((isinstance(t.op, ast.And) and pol) or (isinstance(t.op, ast.Or) and not pol)):
            todo.extend((v, pol) for v in t.values)       # every conjunct holds / every disjunct fails
            continue
        k = au.canon_test(t, True)
        if k in seen and seen[k] != pol:
            return False
        seen[k] = pol
    # a falsified conjunction whose conjuncts are all known true (or a true disjunction with all disjuncts false) is impossible
    for t, pol in conds:
        t, pol = au.strip_not(t, pol)
        if isinstance(t, ast.BoolOp):
            known = []
            for v in t.values:
                vv, vp = au.strip_not(v, True)
                s = seen.get(au.canon_test(vv, True))
                known.append(None if s is None else (s == vp))
            if None not in known:
                truth = all(known) if isinstance(t.op, ast.And) else any(known)
                if truth != pol:
                    return False
    return True


class Stencil:
    def __init__(self, fn):
        self.fn = fn
        self.arrays, self.ctor = coo_arrays(fn)
        self.lils = lil_names(fn)
        self.helper = add_helper(fn, self.arrays)
        self.roles = {}
        if self.arrays:
            d, r, c = self.arrays
            self.roles = {d: "val", r: "row", c: "col"}
        self.counters = set()
        for st in au.stmts(fn.body):
            inc = au.increment(st)
            if inc is not None and isinstance((st.target if isinstance(st, ast.AugAssign) else st.targets[0]), ast.Name) and isinstance(au.const(inc[2]), int):
                self.counters.add(inc[0])
            if isinstance(st, ast.Assign) and len(st.targets) == 1 and isinstance(st.targets[0], ast.Tuple) and isinstance(st.value, ast.Tuple) \
                    and len(st.targets[0].elts) == len(st.value.elts):
                for t, v in zip(st.targets[0].elts, st.value.elts):
                    if isinstance(t, ast.Name) and self._bump_of(t.id, v) is not None:
                        self.counters.add(t.id)
            if self.helper and isinstance(st, ast.Assign) and len(st.targets) == 1 and isinstance(st.targets[0], ast.Name) \
                    and isinstance(st.value, ast.Call) and isinstance(st.value.func, ast.Name) and st.value.func.id == self.helper[0]:
                self.counters.add(st.targets[0].id)

    @staticmethod
    def _bump_of(name, value):
        """c when value == name + c (integer constant c)"""
        try:
            p = sym.to_poly(value, opaque=False)
        except sym.NotPoly:
            return None
        if p.coeff(name) == Poly.const(1) and p.degree_in(name) == 1 and p.without(name).is_const():
            c = p.without(name).const_value()
            if c.denominator == 1:
                return int(c)
        return None

    # ------------------------------------------------------------------ paths
    def paths(self, body, env=None, limit=512):
        states = [(Path(), dict(env or {}), {}, {"row": [], "col": [], "val": []}, {})]
        # state: (path, env, pending slot stores {key: {role: (value, node, slot)}}, appended lists, counter offsets)
        for st in body:
            new = []
            for state in states:
                if state[0].stop:
                    new.append(state)
                    continue
                new.extend(self._step(st, state))
            states = new
            if len(states) > limit:
                raise OverflowError("too many assembly paths")
        out = []
        for path, env, pending, apps, off in states:
            self._flush(path, pending, apps, off)
            out.extend(self._split_conditional_values(path))
        return out

    def _split_conditional_values(self, path, limit=4):
        """entries whose row / col / value is a conditional expression (`-w if connection is None else -w * rect(..)`, typically a helper
        looked through) are read once per truth value of its test: one path per consistent assignment"""
        tests = []
        for e in path.entries:
            for x in (e.row, e.col, e.val):
                for n in ast.walk(x):
                    if isinstance(n, ast.IfExp) and not any(au.canon_test(n.test) == au.canon_test(t) for t in tests):
                        tests.append(n.test)
        if not tests or len(tests) > limit:
            return [path]
        import itertools
        out = []
        for vals in itertools.product((True, False), repeat=len(tests)):
            conds = path.conds + list(zip(tests, vals))
            if not consistent(conds):
                continue

            class T(ast.NodeTransformer):
                def visit_IfExp(self, n):
                    for t, v in zip(tests, vals):
                        if au.canon_test(n.test) == au.canon_test(t):
                            return self.visit(n.body if v else n.orelse)
                    return self.generic_visit(n)
            q = Path()
            q.conds, q.problems, q.unclear, q.bumps, q.stop = conds, list(path.problems), list(path.unclear), dict(path.bumps), path.stop
            for it in path.items:
                if isinstance(it, Entry):
                    q.items.append(Entry(T().visit(sym.clone(it.row)), T().visit(sym.clone(it.col)), T().visit(sym.clone(it.val)), it.mode, it.node, it.slot, it.counter, it.offset))
                else:
                    q.items.append(it)
            out.append(q)
        return out or [path]

    def _fork(self, state):
        path, env, pending, apps, off = state
        p = Path()
        p.conds, p.items, p.problems, p.unclear, p.bumps, p.stop = list(path.conds), list(path.items), list(path.problems), list(path.unclear), dict(path.bumps), path.stop
        return (p, dict(env), {k: dict(v) for k, v in pending.items()}, {k: list(v) for k, v in apps.items()}, dict(off))

    def _sub(self, e, env):
        return he_norm.subst_env(e, env)

    def _slot_key(self, slot, off):
        try:
            p = sym.to_poly(slot, opaque=False)
        except sym.NotPoly:
            return ("expr", au.src(slot)), None, None
        names = [a for a in p.atoms() if a in self.counters]
        if len(names) == 1 and p.coeff(names[0]) == Poly.const(1) and p.without(names[0]).is_const() and p.degree_in(names[0]) == 1:
            c = p.without(names[0]).const_value()
            if c.denominator == 1:
                o = int(c) + off.get(names[0], 0)
                return (names[0], o), names[0], o
        return ("fixed", repr(p)), None, None

    def _store(self, state, target, value, node):
        path, env, pending, apps, off = state
        role = self.roles[target.value.id]
        key, counter, o = self._slot_key(target.slice, off)
        slot = pending.setdefault(key, {})
        if role in slot:
            path.problems.append((node, f"`{target.value.id}` is stored twice at the same slot before the entry is complete"))
        slot[role] = (value, node, target.slice, counter, o)
        if len(slot) == 3:
            r, c, v = slot["row"], slot["col"], slot["val"]
            path.items.append(Entry(r[0], c[0], v[0], "coo", v[1], v[2], counter, o))
            slot["done"] = True

    def _bump(self, state, name, amount):
        path, env, pending, apps, off = state
        off[name] = off.get(name, 0) + amount
        path.bumps[name] = path.bumps.get(name, 0) + amount

    def _havoc(self, env, names):
        for n in names:
            env.pop(n, None)
        for k in [k for k, v in env.items() if au.names(v) & set(names)]:
            env.pop(k, None)

    def _assign_pair(self, state, t, v, node):
        """bind target t to the (already substituted) value v"""
        path, env, pending, apps, off = state
        if isinstance(t, ast.Subscript) and isinstance(t.value, ast.Name) and t.value.id in self.roles and not isinstance(t.slice, ast.Slice):
            self._store(state, t, v, node)
        elif isinstance(t, ast.Subscript) and isinstance(t.value, ast.Name) and t.value.id in self.lils and isinstance(t.slice, ast.Tuple) and len(t.slice.elts) == 2:
            mode = "set"
            # M[i, j] = M[i, j] + x  /  M[i, j] = x + M[i, j]  /  M[i, j] = M[i, j] - x   accumulate like  M[i, j] += x
            if isinstance(v, ast.BinOp) and isinstance(v.op, (ast.Add, ast.Sub)):
                me = au.norm(self._sub(ast.Subscript(value=t.value, slice=t.slice, ctx=ast.Load()), env))
                if au.norm(v.left) == me:
                    mode, v = "add", (v.right if isinstance(v.op, ast.Add) else ast.UnaryOp(op=ast.USub(), operand=v.right))
                elif isinstance(v.op, ast.Add) and au.norm(v.right) == me:
                    mode, v = "add", v.left
            path.items.append(Entry(self._sub(t.slice.elts[0], env), self._sub(t.slice.elts[1], env), v, mode, node))
        elif isinstance(t, ast.Name):
            if t.id in self.counters:
                b = self._bump_of(t.id, v)
                if b is not None:
                    self._bump(state, t.id, b)
                    return
                if self.helper and isinstance(v, ast.Call) and isinstance(v.func, ast.Name) and v.func.id == self.helper[0] and len(v.args) == 4 and not v.keywords:
                    name, role, slot, bumps = self.helper
                    if isinstance(v.args[slot], ast.Name) and v.args[slot].id == t.id and bumps:
                        key, counter, o = self._slot_key(v.args[slot], off)
                        path.items.append(Entry(v.args[role["row"]], v.args[role["col"]], v.args[role["val"]], "coo", node, v.args[slot], counter, o))
                        self._bump(state, t.id, 1)
                        return
                    path.unclear.append((node, "slot counter is not rebound to the value returned by the add helper"))
                    return
                off[t.id] = 0      # counter (re)initialised: offsets restart
                return
            self._havoc(env, [t.id])
            if t.id not in au.names(v):
                env[t.id] = v
        elif isinstance(t, (ast.Tuple, ast.List)):
            self._havoc(env, au.assigned_names(t))
        # other stores: irrelevant

    def _step(self, st, state):
        path, env, pending, apps, off = state
        if isinstance(st, (ast.Continue, ast.Break, ast.Return, ast.Raise)):
            path.stop = True
            return [state]
        if isinstance(st, ast.If):
            out = []
            test = self._sub(st.test, env)
            for branch, pol in ((st.body, True), (st.orelse, False)):
                s2 = self._fork(state)
                s2[0].conds.append((test, pol))
                if not consistent(s2[0].conds):
                    continue
                subs = [s2]
                for x in branch:
                    nxt = []
                    for s in subs:
                        if s[0].stop:
                            nxt.append(s)
                        else:
                            nxt.extend(self._step(x, s))
                    subs = nxt
                out.extend(subs)
            return out
        if isinstance(st, (ast.For, ast.AsyncFor, ast.While)):
            assigned = he_norm._assigned_in([st])
            inner_env = {k: v for k, v in env.items() if k not in assigned and not (au.names(v) & assigned)}
            self._flush(path, pending, apps, off, partial=True)
            sub = self.paths(st.body, inner_env)
            path.items.append(("loop", st, sub))
            self._havoc(env, assigned)
            return [state]
        if isinstance(st, (ast.With, ast.AsyncWith)):
            subs = [state]
            for x in st.body:
                nxt = []
                for s in subs:
                    nxt.extend(self._step(x, s) if not s[0].stop else [s])
                subs = nxt
            return subs
        if isinstance(st, ast.Try):
            subs = [state]
            for x in st.body:
                nxt = []
                for s in subs:
                    nxt.extend(self._step(x, s) if not s[0].stop else [s])
                subs = nxt
            return subs
        if isinstance(st, ast.Assign):
            pairs = []
            for t in st.targets:
                if isinstance(t, (ast.Tuple, ast.List)) and isinstance(st.value, (ast.Tuple, ast.List)) and len(t.elts) == len(st.value.elts) \
                        and not any(isinstance(x, ast.Starred) for x in t.elts):
                    pairs += list(zip(t.elts, st.value.elts))
                elif isinstance(t, (ast.Tuple, ast.List)) and isinstance(st.value, ast.IfExp) and all(
                        isinstance(x, (ast.Tuple, ast.List)) and len(x.elts) == len(t.elts) for x in (st.value.body, st.value.orelse)):
                    # a, b, c = (x, y, z) if cond else (u, v, w): component-wise conditional
                    for i, tt in enumerate(t.elts):
                        pairs.append((tt, ast.IfExp(test=st.value.test, body=st.value.body.elts[i], orelse=st.value.orelse.elts[i])))
                elif isinstance(t, (ast.Tuple, ast.List)) and list(sym.split_assign(st)) and len(st.targets) == 1:
                    pairs += [(ast.Name(id=n, ctx=ast.Store()), v) for n, v in sym.split_assign(st)]
                else:
                    pairs.append((t, st.value))
            # right-hand sides are evaluated before any target is bound (the counter itself stays symbolic)
            cenv = {k: v for k, v in env.items() if k not in self.counters}
            vals = [self._sub(v, cenv) for _, v in pairs]
            for (t, _), v in zip(pairs, vals):
                self._assign_pair(state, t, v, st)
            return [state]
        if isinstance(st, ast.AnnAssign) and st.value is not None:
            self._assign_pair(state, st.target, self._sub(st.value, env), st)
            return [state]
        if isinstance(st, ast.AugAssign):
            t = st.target
            if isinstance(t, ast.Name):
                if t.id in self.counters and isinstance(st.op, (ast.Add, ast.Sub)) and isinstance(au.const(st.value), int):
                    self._bump(state, t.id, au.const(st.value) if isinstance(st.op, ast.Add) else -au.const(st.value))
                else:
                    cur = env.get(t.id, ast.Name(id=t.id, ctx=ast.Load()))
                    val = ast.BinOp(left=sym.clone(cur), op=st.op, right=self._sub(st.value, env))
                    self._havoc(env, [t.id])
                    if t.id not in au.names(val):
                        env[t.id] = val
            elif isinstance(t, ast.Subscript) and isinstance(t.value, ast.Name) and t.value.id in self.lils and isinstance(t.slice, ast.Tuple) \
                    and len(t.slice.elts) == 2 and isinstance(st.op, (ast.Add, ast.Sub)):
                v = self._sub(st.value, env)
                if isinstance(st.op, ast.Sub):
                    v = ast.UnaryOp(op=ast.USub(), operand=v)
                path.items.append(Entry(self._sub(t.slice.elts[0], env), self._sub(t.slice.elts[1], env), v, "add", st))
            elif isinstance(t, ast.Subscript) and isinstance(t.value, ast.Name) and t.value.id in self.roles:
                path.unclear.append((st, f"`{t.value.id}` is updated in place"))
            return [state]
        if isinstance(st, ast.Expr) and isinstance(st.value, ast.Call):
            c = st.value
            if isinstance(c.func, ast.Attribute) and c.func.attr == "append" and isinstance(c.func.value, ast.Name) and c.func.value.id in self.roles and len(c.args) == 1:
                apps[self.roles[c.func.value.id]].append((self._sub(c.args[0], env), st))
            elif isinstance(c.func, ast.Attribute) and c.func.attr == "extend" and isinstance(c.func.value, ast.Name) and c.func.value.id in self.roles \
                    and len(c.args) == 1 and isinstance(c.args[0], (ast.Tuple, ast.List)):
                for x in c.args[0].elts:
                    apps[self.roles[c.func.value.id]].append((self._sub(x, env), st))
            elif self.helper and isinstance(c.func, ast.Name) and c.func.id == self.helper[0]:
                path.problems.append((st, "result of the add helper (next free slot) is discarded"))
            return [state]
        return [state]

    def _flush(self, path, pending, apps, off, partial=False):
        for key, slot in list(pending.items()):
            if not slot.get("done"):
                roles = sorted(k for k in slot if k != "done")
                node = next(v[1] for k, v in slot.items() if k != "done")
                path.unclear.append((node, f"only {', '.join(roles)} stored at one slot (rows, cols and values are not filled together)"))
            del pending[key]
        n = min(len(apps["row"]), len(apps["col"]), len(apps["val"]))
        if n != max(len(apps["row"]), len(apps["col"]), len(apps["val"])):
            node = (apps["row"] + apps["col"] + apps["val"])[0][1]
            path.problems.append((node, f"{len(apps['row'])} rows, {len(apps['col'])} columns and {len(apps['val'])} values are appended on one path: the "
                                        f"parallel lists get out of step"))
        for i in range(n):
            path.items.append(Entry(apps["row"][i][0], apps["col"][i][0], apps["val"][i][0], "coo", apps["val"][i][1]))
        for k in apps:
            apps[k] = []
        if not partial:
            self.check_counter(path)

    def check_counter(self, path):
        by = {}
        for e in path.entries:
            if e.counter is not None:
                by.setdefault(e.counter, []).append(e)
        for name, es in by.items():
            offs = sorted(e.offset for e in es)
            if len(set(offs)) != len(offs):
                path.problems.append((es[0].node, f"two entries are stored at the same slot of the running counter `{name}`"))
            elif offs != list(range(offs[0], offs[0] + len(offs))) or offs[0] != 0:
                path.unclear.append((es[0].node, f"the slots used relative to the running counter `{name}` are {offs}"))
            adv = path.bumps.get(name, 0)
            if adv != len(es) and not path.stop:
                path.problems.append((es[0].node, f"slot counter `{name}` is advanced by {adv} for {len(es)} stored entries: entries are stored on top of "
                                                   f"each other or slots are left empty"))
        for name, adv in path.bumps.items():
            if name not in by and adv and any(e.counter is None and e.mode == "coo" for e in path.entries):
                pass


def _reach(st, lp):
    """definition of the iterable of an inner loop when it is a local name (`adj = neighbours(l)` ... `for b in adj`)"""
    if isinstance(lp.iter, ast.Name):
        try:
            return sym.Bindings(st.fn).reaching(lp.iter.id, lp)
        except Exception:
            return None
    return None


def units(st: Stencil, body):
    """outermost loops whose body emits entries directly (on some path) -> [(loop, [Path])]"""
    out = []
    for s in body:
        if isinstance(s, (ast.For, ast.While)):
            paths = st.paths(s.body)
            tnames = set(au.assigned_names(s.target)) if isinstance(s, ast.For) else set()
            neighbour = any(any(q.entries for q in lp[2]) and (au.names(lp[1].iter) & tnames or
                                                              any(au.names(v) & tnames for v in [_reach(st, lp[1])] if v is not None))
                            for p in paths for lp in p.loops)
            if any(p.entries for p in paths) or neighbour:
                out.append((s, paths))          # entries of the element itself and / or of a loop over its neighbours
            else:
                out.extend(units(st, s.body))
        elif isinstance(s, ast.If):
            out.extend(units(st, s.body))
            out.extend(units(st, s.orelse))
        elif isinstance(s, (ast.With, ast.Try)):
            out.extend(units(st, s.body))
    return out
