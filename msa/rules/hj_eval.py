"""hj_eval - abstract evaluation of small numeric kernels extracted from the source (C17 / C18 rules).

Some clauses are about *values* a short piece of index arithmetic produces for every size of the input ("the n border vertices
get n distinct positions on the square, in border order", "every non-zero entry is divided by its modulus").  Matching the shape of
such code is hopeless: the same kernel can be written with loops, enumerate offsets, slices or whole-array expressions.  Instead
the statements of the kernel are evaluated, *as syntax trees*, by the little interpreter below over a tiny concrete domain (a border
of n = 4 .. 40 vertices, a vector of five complex numbers): ints / floats / complex numbers, lists, tuples, ranges, slices and a
list-backed 1-D stand-in for numpy arrays with element-wise arithmetic, comparisons, mask and slice stores.  Only a white-list of
pure builtins / numpy / math functions is known; calls of functions of the package are followed by interpreting their trees in
turn.  Anything else raises `Unsupported` and the rule ends `undecided`.  No code object of the repository is ever built, imported or
run: this is an evaluator for extracted arithmetic, in the spirit of the truth tables of `decide` and the orderings of `order`."""
from __future__ import annotations
import ast, cmath, math
from .. import au


class Unsupported(Exception):
    pass


class Raised(Exception):
    """the evaluated kernel raises (e.g. ZeroDivisionError)"""


class _Return(Exception):
    def __init__(self, v):
        self.v = v


class _Break(Exception):
    pass


class _Continue(Exception):
    pass


class Sym:
    """an opaque dotted name (module, class, enum member); equal iff same path"""

    def __init__(self, path):
        self.path = path

    def key(self):
        return tuple(self.path.split(".")[-2:])

    def __eq__(self, o):
        return isinstance(o, Sym) and o.key() == self.key()

    def __ne__(self, o):
        return not self.__eq__(o)

    def __hash__(self):
        return hash(self.key())

    def __repr__(self):
        return f"<{self.path}>"


class Obj:
    """an object of the program (self, self.mesh ...): attributes come from the hook or from stores made by the kernel"""

    def __init__(self, path, hook):
        self.path, self.hook, self.attrs = path, hook, {}

    def get(self, attr):
        if attr in self.attrs:
            return self.attrs[attr]
        v = self.hook(self.path + "." + attr)
        if isinstance(v, _Missing):
            raise Unsupported(f"attribute {self.path}.{attr}")
        self.attrs[attr] = v
        return v


class _Missing:
    pass


class Env(dict):
    """local scope of a nested function: reads fall back to the (live) enclosing scope, writes stay local unless declared nonlocal"""

    def __init__(self, parent, nonlocals=()):
        super().__init__()
        self.parent, self.nonlocals = parent, set(nonlocals)

    def __contains__(self, k):
        return dict.__contains__(self, k) or k in self.parent

    def __getitem__(self, k):
        if dict.__contains__(self, k):
            return dict.__getitem__(self, k)
        return self.parent[k]

    def get(self, k, d=None):
        return self[k] if k in self else d

    def __setitem__(self, k, v):
        if k in self.nonlocals:
            self.parent[k] = v
        else:
            dict.__setitem__(self, k, v)


MISSING = _Missing()


def _num(x):
    return isinstance(x, (int, float, complex)) and not isinstance(x, bool) or isinstance(x, bool)


class Arr:
    """list-backed 1-D array; a slice of an array is a *view* that reads and writes through to its base (numpy semantics),
    fancy / mask indexing gives a copy"""

    def __init__(self, data, base=None, idx=None):
        if base is None:
            self._base, self._idx = list(data), None
        else:
            self._base, self._idx = base, list(idx)

    @property
    def d(self):
        return self._base if self._idx is None else [self._base[i] for i in self._idx]

    def _set(self, k, v):
        if self._idx is None:
            self._base[k] = v
        else:
            self._base[self._idx[k]] = v

    def __len__(self):
        return len(self._base) if self._idx is None else len(self._idx)

    def __iter__(self):
        return iter(self.d)

    def _bin(self, o, f):
        if isinstance(o, Arr):
            if len(o) != len(self):
                raise Raised("shape mismatch")
            return Arr(f(a, b) for a, b in zip(self.d, o.d))
        if _num(o):
            return Arr(f(a, o) for a in self.d)
        raise Unsupported("array operand")

    def _rbin(self, o, f):
        if _num(o):
            return Arr(f(o, a) for a in self.d)
        raise Unsupported("array operand")

    def index(self, k):
        if isinstance(k, bool):
            raise Unsupported("bool index")
        if isinstance(k, int):
            if not -len(self) <= k < len(self):
                raise Raised("index out of range")
            return self.d[k]
        if isinstance(k, slice):
            pos = list(range(len(self)))[k]
            root = self._base
            return Arr(None, base=root, idx=[(p if self._idx is None else self._idx[p]) for p in pos])
        if isinstance(k, Arr):
            if all(isinstance(x, bool) for x in k.d):
                if len(k) != len(self):
                    raise Raised("mask length")
                return Arr(a for a, m in zip(self.d, k.d) if m)
            return Arr(self.index(int(x)) for x in k.d)
        if isinstance(k, (list, range, tuple)) and all(isinstance(x, int) for x in k):
            return Arr(self.index(x) for x in k)
        raise Unsupported("array index")

    def positions(self, k):
        n = len(self)
        if isinstance(k, bool):
            raise Unsupported("bool index")
        if isinstance(k, int):
            if not -n <= k < n:
                raise Raised("index out of range")
            return [k % n], True
        if isinstance(k, slice):
            return list(range(n))[k], False
        if isinstance(k, Arr) and all(isinstance(x, bool) for x in k.d):
            if len(k) != n:
                raise Raised("mask length")
            return [i for i, m in enumerate(k.d) if m], False
        if isinstance(k, (Arr, list, range, tuple)):
            return [int(x) % n if -n <= int(x) < n else _oob() for x in k], False
        raise Unsupported("array index")

    def store(self, k, v):
        pos, scalar = self.positions(k)
        if scalar:
            if isinstance(v, Arr):
                raise Unsupported("array into element")
            self._set(pos[0], v)
            return
        if isinstance(v, Arr):
            vals = list(v.d)
            if len(vals) != len(pos):
                if len(vals) == 1:
                    vals = vals * len(pos)
                else:
                    raise Raised("shape mismatch in store")
            for p, x in zip(pos, vals):
                self._set(p, x)
        elif isinstance(v, (list, tuple)):
            if len(v) != len(pos):
                raise Raised("shape mismatch in store")
            for p, x in zip(pos, v):
                self._set(p, x)
        else:
            for p in pos:
                self._set(p, v)


def _oob():
    raise Raised("index out of range")


def _div(a, b):
    try:
        return a / b
    except ZeroDivisionError:
        if isinstance(a, int) and isinstance(b, int):
            raise Raised("division by zero")
        # floating point / complex operands stand for numpy scalars: nan or inf and a warning, no exception
        if a == 0 or a != a:
            return complex(float("nan"), float("nan")) if isinstance(a, complex) or isinstance(b, complex) else float("nan")
        if isinstance(a, complex) or isinstance(b, complex):
            return complex(float("inf"), float("nan"))
        return math.copysign(float("inf"), a)


def _floordiv(a, b):
    try:
        return a // b
    except ZeroDivisionError:
        raise Raised("division by zero")


def _mod(a, b):
    try:
        return a % b
    except ZeroDivisionError:
        raise Raised("division by zero")


BIN = {ast.Add: lambda a, b: a + b, ast.Sub: lambda a, b: a - b, ast.Mult: lambda a, b: a * b, ast.Div: _div,
       ast.FloorDiv: _floordiv, ast.Mod: _mod, ast.Pow: lambda a, b: a ** b, ast.BitAnd: lambda a, b: a & b, ast.BitOr: lambda a, b: a | b}
CMP = {ast.Lt: lambda a, b: a < b, ast.LtE: lambda a, b: a <= b, ast.Gt: lambda a, b: a > b, ast.GtE: lambda a, b: a >= b,
       ast.Eq: lambda a, b: a == b, ast.NotEq: lambda a, b: a != b}


def _elementwise(f):
    def g(x, *rest):
        if isinstance(x, Arr):
            return Arr(f(a, *rest) for a in x.d)
        if isinstance(x, (list, tuple)):
            return Arr(f(a, *rest) for a in x)
        return f(x, *rest)
    return g


def _np_zeros(shape, *a, **k):
    if isinstance(shape, int):
        fill = 0j if k.get("dtype") is complex else 0.0
        return Arr([fill] * shape)
    raise Unsupported("np.zeros of a non 1-D shape")


def _np_arange(*args):
    if not all(isinstance(a, int) for a in args):
        raise Unsupported("np.arange of non integers")
    return Arr(range(*args))


def _np_linspace(a, b, num=50, endpoint=True):
    if num == 1:
        return Arr([a])
    step = (b - a) / ((num - 1) if endpoint else num)
    return Arr(a + i * step for i in range(num))


def _np_where(m, a, b):
    if not isinstance(m, Arr):
        raise Unsupported("np.where on a scalar")
    pick = lambda v, i: v.d[i] if isinstance(v, Arr) else v
    return Arr(pick(a, i) if mm else pick(b, i) for i, mm in enumerate(m.d))


def _np_pair(f):
    """elementwise binary function with numpy broadcasting of a scalar operand"""
    def g(a, b):
        if isinstance(a, (list, tuple)):
            a = Arr(a)
        if isinstance(b, (list, tuple)):
            b = Arr(b)
        if isinstance(a, Arr):
            return a._bin(b, f)
        if isinstance(b, Arr):
            return b._rbin(a, f)
        if _num(a) and _num(b):
            return f(a, b)
        raise Unsupported("operands of an elementwise numpy function")
    return g


def _np_choose(a, choices, *rest, **kw):
    """np.choose(a, choices) with the default mode='raise': result[i] = choices[a[i]][i]"""
    if rest or kw or not isinstance(a, Arr) or not isinstance(choices, (list, tuple)):
        raise Unsupported("np.choose form")
    out = []
    for i, k in enumerate(a.d):
        if isinstance(k, bool) or not isinstance(k, int):
            raise Unsupported("np.choose selector")
        if not 0 <= k < len(choices):
            raise Raised("np.choose: invalid entry in choice array")
        c = choices[k]
        if isinstance(c, Arr):
            if len(c) != len(a):
                raise Raised("shape mismatch")
            out.append(c.d[i])
        elif _num(c):
            out.append(c)
        else:
            raise Unsupported("np.choose choice")
    return Arr(out)


def _np_clip(x, lo, hi):
    f = lambda v: min(max(v, lo), hi)
    if not (_num(lo) and _num(hi)):
        raise Unsupported("np.clip bounds")
    return Arr(f(v) for v in x.d) if isinstance(x, Arr) else f(x)


def _rect(r, phi):
    return cmath.rect(r, phi)


FUNCS = {
    "range": range, "len": len, "enumerate": lambda it, start=0: list(enumerate(it, start)), "zip": lambda *a: list(zip(*a)),
    "slice": slice, "int": int, "float": float, "abs": lambda x: Arr(abs(a) for a in x.d) if isinstance(x, Arr) else abs(x),
    "min": min, "max": max, "round": round, "sum": lambda x, *a: sum(list(x), *a), "list": lambda x=(): list(x), "tuple": lambda x=(): tuple(x),
    "reversed": lambda x: list(reversed(list(x))), "complex": complex, "bool": bool, "sorted": lambda x: sorted(x), "divmod": divmod,
    "np.zeros": _np_zeros, "np.ones": lambda n, *a, **k: Arr([1.0] * n) if isinstance(n, int) else (_ for _ in ()).throw(Unsupported("np.ones shape")),
    "np.empty": _np_zeros, "np.arange": _np_arange, "np.linspace": _np_linspace, "np.where": _np_where,
    "np.array": lambda x, *a, **k: Arr(x) if all(_num(v) for v in x) else (_ for _ in ()).throw(Unsupported("np.array of non numbers")),
    "np.asarray": lambda x, *a, **k: x if isinstance(x, Arr) else Arr(x),
    "np.cos": _elementwise(math.cos), "np.sin": _elementwise(math.sin), "np.abs": _elementwise(abs), "np.absolute": _elementwise(abs),
    "np.sqrt": _elementwise(math.sqrt), "np.exp": _elementwise(cmath.exp), "np.real": _elementwise(lambda z: complex(z).real),
    "np.imag": _elementwise(lambda z: complex(z).imag), "np.floor": _elementwise(math.floor), "np.angle": _elementwise(cmath.phase),
    "np.hypot": lambda a, b: (a._bin(b, math.hypot) if isinstance(a, Arr) else (b._rbin(a, math.hypot) if isinstance(b, Arr) else math.hypot(a, b))),
    "np.arctan2": lambda a, b: (a._bin(b, math.atan2) if isinstance(a, Arr) else (b._rbin(a, math.atan2) if isinstance(b, Arr) else math.atan2(a, b))),
    "np.conj": _elementwise(lambda z: complex(z).conjugate()), "np.conjugate": _elementwise(lambda z: complex(z).conjugate()),
    "np.fromiter": lambda it, dtype=float, count=-1: Arr(list(it)), "set": lambda x=(): set(x), "frozenset": lambda x=(): frozenset(x),
    "dict": lambda x=(): dict(x), "str": str,
    "np.flatnonzero": lambda m: Arr(i for i, x in enumerate(m.d if isinstance(m, Arr) else m) if x),
    "np.nonzero": lambda m: (Arr(i for i, x in enumerate(m.d if isinstance(m, Arr) else m) if x),),
    "np.count_nonzero": lambda m: sum(1 for x in (m.d if isinstance(m, Arr) else m) if x),
    "np.any": lambda m: any(m.d if isinstance(m, Arr) else m), "np.all": lambda m: all(m.d if isinstance(m, Arr) else m),
    "np.logical_not": _elementwise(lambda x: not x), "np.logical_and": lambda a, b: a._bin(b, lambda x, y: bool(x and y)),
    "np.logical_or": lambda a, b: a._bin(b, lambda x, y: bool(x or y)),
    "np.minimum": _np_pair(min), "np.maximum": _np_pair(max), "np.choose": _np_choose, "np.clip": _np_clip,
    "np.mod": lambda a, b: BIN[ast.Mod](a, b), "np.isclose": lambda a, b, *r, **k: abs(a - b) <= 1e-8,
    "np.concatenate": lambda xs, *a, **k: Arr(v for x in xs for v in (x.d if isinstance(x, Arr) else x)),
    "np.full": lambda n, v, *a, **k: Arr([v] * n) if isinstance(n, int) else (_ for _ in ()).throw(Unsupported("np.full shape")),
    "math.cos": math.cos, "math.sin": math.sin, "math.sqrt": math.sqrt, "math.floor": math.floor, "math.ceil": math.ceil,
    "math.atan2": math.atan2, "math.fabs": math.fabs, "math.hypot": math.hypot,
    "cmath.rect": _rect, "cmath.phase": cmath.phase, "cmath.exp": cmath.exp, "cmath.polar": cmath.polar,
}
CONSTS = {"np.pi": math.pi, "math.pi": math.pi, "math.tau": math.tau, "cmath.pi": math.pi, "math.inf": math.inf, "np.inf": math.inf,
          "np.float64": float, "np.int32": int, "np.int64": int, "np.complex128": complex}
MODULE_ALIASES = {"numpy": "np", "np": "np", "math": "math", "cmath": "cmath"}
FROM_IMPORTS = {("math", "pi"): math.pi, ("math", "tau"): math.tau, ("math", "cos"): math.cos, ("math", "sin"): math.sin,
                ("math", "sqrt"): math.sqrt, ("math", "floor"): math.floor, ("math", "ceil"): math.ceil, ("math", "atan2"): math.atan2,
                ("cmath", "rect"): _rect, ("cmath", "phase"): cmath.phase, ("numpy", "pi"): math.pi}


class Interp:
    def __init__(self, repo, modname, obj_hook=None, ignore_calls=("log", "warn", "print"), max_steps=400000, max_depth=4, obj_class=None, name_hook=None, call_hook=None):
        self.repo, self.mod = repo, repo.module(modname)
        self.hook = obj_hook or (lambda path: MISSING)
        self.ignore = set(ignore_calls)
        self.steps, self.max_steps, self.max_depth = 0, max_steps, max_depth
        self.n_stores = 0
        self.obj_class = obj_class or {}
        self.name_hook = name_hook or {}
        self.call_hook = call_hook

    @staticmethod
    def is_static(fn):
        return any((isinstance(d, ast.Name) and d.id == "staticmethod") for d in fn.decorator_list)

    def method_of(self, obj, name):
        cls = self.obj_class.get(obj.path)
        if cls is None:
            return None
        m0 = self.repo.module(cls[0])
        if cls[1] not in m0.classes:
            return None
        meths = self.repo.methods(m0, m0.classes[cls[1]])
        return meths.get(name)

    # ------------------------------------------------------------------ functions
    def call_function(self, fn, args, kwargs=None, mod=None, depth=0):
        if depth > self.max_depth:
            raise Unsupported("call depth")
        a = fn.args
        if a.vararg or a.kwarg and kwargs and any(k not in [x.arg for x in a.args + a.kwonlyargs] for k in kwargs):
            raise Unsupported("varargs")
        pos = [x.arg for x in a.posonlyargs + a.args]
        env = {}
        defaults = dict(zip(pos[len(pos) - len(a.defaults):], a.defaults))
        for x, d in zip(a.kwonlyargs, a.kw_defaults):
            if d is not None:
                defaults[x.arg] = d
        if len(args) > len(pos):
            raise Unsupported("too many arguments")
        for p, v in zip(pos, args):
            env[p] = v
        for k, v in (kwargs or {}).items():
            env[k] = v
        fr = Frame(self, env, mod or self.mod, depth)
        for p in pos + [x.arg for x in a.kwonlyargs]:
            if p not in env:
                if p not in defaults:
                    raise Unsupported(f"missing argument {p}")
                env[p] = fr.ev(defaults[p])
        if any(isinstance(n, (ast.Yield, ast.YieldFrom)) for n in au.walk(fn.body)):
            fr.yields = []
            try:
                fr.block(fn.body)
            except _Return:
                pass
            return fr.yields
        try:
            fr.block(fn.body)
        except _Return as r:
            return r.v
        return None


class Frame:
    def __init__(self, it, env, mod, depth):
        self.it, self.env, self.mod, self.depth = it, env, mod, depth
        self.yields = None

    def tick(self):
        self.it.steps += 1
        if self.it.steps > self.it.max_steps:
            raise Unsupported("step budget exhausted")

    # ------------------------------------------------------------------ statements
    def block(self, stmts):
        for st in stmts:
            self.stmt(st)

    def stmt(self, st):
        self.tick()
        if isinstance(st, ast.Expr):
            if isinstance(st.value, ast.Constant):
                return
            if isinstance(st.value, ast.Call) and au.call_tail(st.value) in self.it.ignore:
                return
            if isinstance(st.value, ast.Yield):
                if self.yields is None:
                    raise Unsupported("yield outside a generator call")
                self.yields.append(self.ev(st.value.value) if st.value.value is not None else None)
                return
            if isinstance(st.value, ast.YieldFrom):
                if self.yields is None:
                    raise Unsupported("yield outside a generator call")
                self.yields.extend(self.iterate(self.ev(st.value.value)))
                return
            self.ev(st.value)
        elif isinstance(st, ast.Assign):
            v = self.ev(st.value)
            for t in st.targets:
                self.assign(t, v)
        elif isinstance(st, ast.AnnAssign):
            if st.value is not None:
                self.assign(st.target, self.ev(st.value))
        elif isinstance(st, ast.AugAssign):
            if type(st.op) not in BIN:
                raise Unsupported("augmented operator")
            cur = self.ev(_load(st.target))
            self.assign(st.target, self.binop(type(st.op), cur, self.ev(st.value)))
        elif isinstance(st, ast.If):
            self.block(st.body if self.truth(self.ev(st.test)) else st.orelse)
        elif isinstance(st, ast.For):
            it = self.iterate(self.ev(st.iter))
            broke = False
            for v in it:
                self.tick()
                self.assign(st.target, v)
                try:
                    self.block(st.body)
                except _Break:
                    broke = True
                    break
                except _Continue:
                    continue
            if not broke:
                self.block(st.orelse)
        elif isinstance(st, ast.While):
            broke = False
            while self.truth(self.ev(st.test)):
                self.tick()
                try:
                    self.block(st.body)
                except _Break:
                    broke = True
                    break
                except _Continue:
                    continue
            if not broke:
                self.block(st.orelse)
        elif isinstance(st, ast.Return):
            raise _Return(self.ev(st.value) if st.value is not None else None)
        elif isinstance(st, ast.Pass):
            return
        elif isinstance(st, ast.Break):
            raise _Break()
        elif isinstance(st, ast.Continue):
            raise _Continue()
        elif isinstance(st, ast.Raise):
            raise Raised("raise statement")
        elif isinstance(st, ast.Assert):
            if not self.truth(self.ev(st.test)):
                raise Raised("assertion")
        elif isinstance(st, (ast.FunctionDef, ast.Import, ast.ImportFrom)):
            if isinstance(st, ast.FunctionDef):
                self.env[st.name] = ("localfn", st)
        else:
            raise Unsupported(f"statement {type(st).__name__}")

    def truth(self, v):
        if isinstance(v, Arr):
            raise Unsupported("truth value of an array")
        if isinstance(v, (Sym, Obj)):
            return True
        return bool(v)

    def iterate(self, v):
        if isinstance(v, (set, frozenset)):
            try:
                return sorted(v)
            except TypeError:
                raise Unsupported("iteration over a set of unordered values")
        if isinstance(v, (list, tuple, range, Arr, dict)):
            return list(v)
        raise Unsupported("iteration over " + type(v).__name__)

    def assign(self, t, v):
        if isinstance(t, ast.Name):
            self.env[t.id] = v
        elif isinstance(t, (ast.Tuple, ast.List)):
            vs = self.iterate(v)
            if any(isinstance(x, ast.Starred) for x in t.elts) or len(vs) != len(t.elts):
                raise Raised("unpacking") if len(vs) != len(t.elts) else Unsupported("starred")
            for a, b in zip(t.elts, vs):
                self.assign(a, b)
        elif isinstance(t, ast.Subscript):
            base = self.ev(t.value)
            k = self.ev_index(t.slice)
            self.it.n_stores += 1
            if isinstance(base, Arr):
                base.store(k, v)
            elif isinstance(base, list):
                if isinstance(k, (int, slice)) and not isinstance(k, bool):
                    try:
                        base[k] = v
                    except IndexError:
                        raise Raised("index out of range")
                else:
                    raise Unsupported("list store index")
            elif isinstance(base, dict):
                base[k] = v
            else:
                raise Unsupported("store into " + type(base).__name__)
        elif isinstance(t, ast.Attribute):
            base = self.ev(t.value)
            if isinstance(base, Obj):
                base.attrs[t.attr] = v
            else:
                raise Unsupported("attribute store")
        else:
            raise Unsupported("assignment target")

    # ------------------------------------------------------------------ expressions
    def ev_index(self, s):
        if isinstance(s, ast.Slice):
            return slice(*(self.ev(x) if x is not None else None for x in (s.lower, s.upper, s.step)))
        if isinstance(s, ast.Tuple):
            raise Unsupported("multi-dimensional index")
        return self.ev(s)

    def binop(self, op, a, b):
        f = BIN[op]
        if isinstance(a, Arr):
            return a._bin(b, f)
        if isinstance(b, Arr):
            return b._rbin(a, f)
        if isinstance(a, (Sym, Obj)) or isinstance(b, (Sym, Obj)):
            raise Unsupported("arithmetic on an opaque value")
        if op is ast.Mult and (isinstance(a, (list, tuple)) or isinstance(b, (list, tuple))):
            return a * b
        if op is ast.Add and isinstance(a, (list, tuple)) and type(a) is type(b):
            return a + b
        if op is ast.Add and isinstance(a, str) and isinstance(b, str):
            return a + b
        if not (_num(a) and _num(b)):
            raise Unsupported("arithmetic on " + type(a).__name__)
        try:
            return f(a, b)
        except (OverflowError, ValueError):
            raise Raised("arithmetic error")

    def dotted(self, e):
        c = au.chain(e)
        return ".".join(c) if c else None

    def name(self, nm):
        if nm in self.env:
            return self.env[nm]
        if nm in ("True", "False", "None"):
            return {"True": True, "False": False, "None": None}[nm]
        if nm in FUNCS:
            return ("builtin", nm)
        if nm in ("float", "int", "complex", "bool", "str"):
            return {"float": float, "int": int, "complex": complex, "bool": bool, "str": str}[nm]
        # module-level binding
        r = self.it.repo.resolve(self.mod.name, nm)
        if r is not None:
            kind, src, oname = r
            if kind == "external":
                if (src, oname) in FROM_IMPORTS:
                    return FROM_IMPORTS[(src, oname)]
                if oname is None and (src or "").split(".")[0] in MODULE_ALIASES:
                    return Sym(MODULE_ALIASES[(src or "").split(".")[0]])
                return Sym(f"{src}.{oname}" if oname else str(src))
            if kind == "def":
                return ("pkgfn", self.it.repo.modules[src], self.it.repo.modules[src].funcs[oname])
            if kind == "var":
                m = self.it.repo.modules[src]
                for st in m.tree.body:
                    if isinstance(st, ast.Assign) and any(isinstance(t, ast.Name) and t.id == oname for t in st.targets):
                        return Frame(self.it, {}, m, self.depth).ev(st.value)
                    if isinstance(st, ast.AnnAssign) and isinstance(st.target, ast.Name) and st.target.id == oname and st.value is not None:
                        return Frame(self.it, {}, m, self.depth).ev(st.value)
            return Sym(f"{src}.{oname}" if oname else str(src))
        # plain `import x as y` inside the module
        for st in self.mod.tree.body:
            if isinstance(st, ast.Import):
                for a in st.names:
                    if (a.asname or a.name.split(".")[0]) == nm and a.name.split(".")[0] in MODULE_ALIASES:
                        return Sym(MODULE_ALIASES[a.name.split(".")[0]])
        return Sym(nm)

    def ev(self, e):
        self.tick()
        if isinstance(e, ast.Constant):
            return e.value
        if isinstance(e, ast.Name):
            return self.name(e.id)
        if isinstance(e, ast.Attribute):
            base = self.ev(e.value)
            if isinstance(base, Obj):
                if e.attr not in base.attrs and self.it.method_of(base, e.attr) is not None:
                    return ("objmethod", base, e.attr)
                return base.get(e.attr)
            if isinstance(base, str) and e.attr in ("lower", "upper", "strip", "capitalize"):
                return ("strmethod", base, e.attr)
            if isinstance(base, Sym) and e.attr == "name" and base.path.count(".") >= 1 and base.path.split(".")[-1].isupper():
                return base.path.split(".")[-1]
            if isinstance(base, Sym):
                path = base.path + "." + e.attr
                if path in CONSTS:
                    return CONSTS[path]
                if path in FUNCS:
                    return ("builtin", path)
                return Sym(path)
            if isinstance(base, (int, float, complex)) and e.attr in ("real", "imag"):
                return getattr(complex(base), e.attr)
            if isinstance(base, Arr):
                if e.attr in ("x", "y", "z") and len(base) > "xyz".index(e.attr):
                    return base.d["xyz".index(e.attr)]
                if e.attr == "size":
                    return len(base)
                if e.attr == "shape":
                    return (len(base),)
                if e.attr in ("real", "imag"):
                    return Arr(getattr(complex(x), e.attr) for x in base.d)
                return ("method", base, e.attr)
            if isinstance(base, (list, dict, tuple, set)):
                return ("method", base, e.attr)
            if isinstance(base, slice) and e.attr in ("start", "stop", "step"):
                return getattr(base, e.attr)
            raise Unsupported(f"attribute {e.attr} of {type(base).__name__}")
        if isinstance(e, ast.BinOp):
            if type(e.op) not in BIN:
                raise Unsupported("operator")
            return self.binop(type(e.op), self.ev(e.left), self.ev(e.right))
        if isinstance(e, ast.UnaryOp):
            v = self.ev(e.operand)
            if isinstance(e.op, ast.Not):
                return not self.truth(v)
            if isinstance(e.op, ast.USub):
                return Arr(-x for x in v.d) if isinstance(v, Arr) else -v
            if isinstance(e.op, ast.UAdd):
                return v
            if isinstance(e.op, ast.Invert) and isinstance(v, Arr):
                return Arr(not x for x in v.d)
            raise Unsupported("unary operator")
        if isinstance(e, ast.BoolOp):
            r = None
            for x in e.values:
                r = self.ev(x)
                t = self.truth(r)
                if isinstance(e.op, ast.And) and not t:
                    return r
                if isinstance(e.op, ast.Or) and t:
                    return r
            return r
        if isinstance(e, ast.Compare):
            left = self.ev(e.left)
            for op, c in zip(e.ops, e.comparators):
                right = self.ev(c)
                if isinstance(op, (ast.Is, ast.IsNot)):
                    r = (left is right) or (left is None and right is None)
                    r = r if isinstance(op, ast.Is) else not r
                elif isinstance(op, (ast.In, ast.NotIn)):
                    if not isinstance(right, (list, tuple, range, dict, set)):
                        raise Unsupported("membership")
                    r = left in right
                    r = r if isinstance(op, ast.In) else not r
                elif type(op) in CMP:
                    if isinstance(left, Arr):
                        r = left._bin(right, CMP[type(op)])
                    elif isinstance(right, Arr):
                        r = right._rbin(left, CMP[type(op)])
                    elif isinstance(left, (Sym, Obj)) or isinstance(right, (Sym, Obj)):
                        if not isinstance(op, (ast.Eq, ast.NotEq)):
                            raise Unsupported("ordering of opaque values")
                        r = CMP[type(op)](left, right)
                    else:
                        try:
                            r = CMP[type(op)](left, right)
                        except TypeError:
                            raise Unsupported("comparison")
                else:
                    raise Unsupported("comparison operator")
                if isinstance(r, Arr):
                    if len(e.ops) > 1:
                        raise Unsupported("chained array comparison")
                    return r
                if not r:
                    return False
                left = right
            return True
        if isinstance(e, ast.IfExp):
            return self.ev(e.body) if self.truth(self.ev(e.test)) else self.ev(e.orelse)
        if isinstance(e, (ast.Tuple, ast.List)):
            vals = []
            for x in e.elts:
                if isinstance(x, ast.Starred):
                    vals.extend(self.iterate(self.ev(x.value)))
                else:
                    vals.append(self.ev(x))
            return tuple(vals) if isinstance(e, ast.Tuple) else vals
        if isinstance(e, ast.Dict):
            return {self.ev(k): self.ev(v) for k, v in zip(e.keys, e.values)}
        if isinstance(e, ast.Subscript):
            base = self.ev(e.value)
            k = self.ev_index(e.slice)
            if isinstance(base, Arr):
                return base.index(k)
            if isinstance(base, (list, tuple, range)):
                if isinstance(k, bool) or not isinstance(k, (int, slice)):
                    raise Unsupported("sequence index")
                try:
                    return base[k]
                except IndexError:
                    raise Raised("index out of range")
            if isinstance(base, dict):
                if k not in base:
                    raise Raised("key error")
                return base[k]
            raise Unsupported("subscript of " + type(base).__name__)
        if isinstance(e, (ast.ListComp, ast.GeneratorExp)):
            out = []
            self._comp(e.generators, 0, lambda: out.append(self.ev(e.elt)))
            return out
        if isinstance(e, ast.Call):
            return self.call(e)
        if isinstance(e, ast.JoinedStr):
            return "<str>"
        if isinstance(e, ast.Lambda):
            return ("lambda", e, self)
        raise Unsupported(f"expression {type(e).__name__}")

    def _comp(self, gens, i, leaf):
        if i == len(gens):
            leaf()
            return
        g = gens[i]
        saved = {k: self.env[k] for k in au.assigned_names(g.target) if k in self.env}
        for v in self.iterate(self.ev(g.iter)):
            self.assign(g.target, v)
            if all(self.truth(self.ev(c)) for c in g.ifs):
                self._comp(gens, i + 1, leaf)
        for k in au.assigned_names(g.target):
            if k in saved:
                self.env[k] = saved[k]
            elif dict.__contains__(self.env, k):
                dict.__delitem__(self.env, k)

    def call(self, c):
        tail = au.call_tail(c)
        if tail in self.it.ignore:
            return None
        method_of = None
        if isinstance(c.func, ast.Name) and c.func.id == "getattr" and "getattr" not in self.env and len(c.args) in (2, 3):
            o, nm = self.ev(c.args[0]), self.ev(c.args[1])
            if isinstance(o, Obj) and isinstance(nm, str):
                if nm not in o.attrs and self.it.method_of(o, nm) is not None:
                    return ("objmethod", o, nm)
                try:
                    return o.get(nm)
                except Unsupported:
                    if len(c.args) == 3:
                        return self.ev(c.args[2])
                    raise
            if isinstance(o, Sym) and nm == "name" and o.path.split(".")[-1].isupper():
                return o.path.split(".")[-1]
            if isinstance(o, Sym) and len(c.args) == 3:
                return self.ev(c.args[2])
            raise Unsupported("getattr")
        if isinstance(c.func, ast.Name) and c.func.id == "isinstance" and len(c.args) == 2 and "isinstance" not in self.env:
            o = self.ev(c.args[0])
            t = c.args[1]
            names = [x.id for x in (t.elts if isinstance(t, ast.Tuple) else [t]) if isinstance(x, ast.Name)]
            table = {"str": str, "int": int, "float": float, "complex": complex, "list": list, "tuple": tuple, "dict": dict, "bool": bool}
            if names and all(n in table for n in names):
                return False if isinstance(o, (Sym, Obj, Arr)) else isinstance(o, tuple(table[n] for n in names))
            raise Unsupported("isinstance")
        if isinstance(c.func, ast.Name) and c.func.id in self.it.name_hook and c.func.id not in self.env:
            args = [self.ev(a) for a in c.args]
            return self.it.name_hook[c.func.id](*args, **{k.arg: self.ev(k.value) for k in c.keywords})
        if isinstance(c.func, ast.Attribute):
            base0 = self.ev(c.func.value)
            if isinstance(base0, Obj):
                method_of = base0
        f = None if method_of is not None else self.ev(c.func)
        args = []
        for a in c.args:
            if isinstance(a, ast.Starred):
                args.extend(self.iterate(self.ev(a.value)))
            else:
                args.append(self.ev(a))
        kwargs = {}
        for k in c.keywords:
            if k.arg is None:
                raise Unsupported("**kwargs")
            kwargs[k.arg] = self.ev(k.value)
        if method_of is not None:
            cls = self.it.obj_class.get(method_of.path)
            if cls is not None:
                m0 = self.it.repo.module(cls[0])
                if cls[1] in m0.classes:
                    meths = self.it.repo.methods(m0, m0.classes[cls[1]])
                    if c.func.attr in meths:
                        mm, fn, owner = meths[c.func.attr]
                        recv = [] if Interp.is_static(fn) else [method_of]
                        return self.it.call_function(fn, recv + args, kwargs, mod=mm, depth=self.depth + 1)
            if self.it.call_hook is not None:
                r = self.it.call_hook(method_of.path + "." + c.func.attr, args, kwargs)
                if not isinstance(r, _Missing):
                    return r
            raise Unsupported(f"call of {au.src(c.func)}")
        if isinstance(f, Sym) and f.path.split(".")[-1] == "Vec" and not kwargs:
            # mouette.geometry.Vec: a numpy vector built from its coordinates (or from one sequence)
            vals = list(args[0].d if isinstance(args[0], Arr) else args[0]) if len(args) == 1 and isinstance(args[0], (Arr, list, tuple)) else list(args)
            if not all(_num(v) for v in vals):
                raise Unsupported("Vec of non numbers")
            return Arr(vals)
        if f in (float, int, complex, bool):
            return f(*args)
        if isinstance(f, tuple) and f[0] == "builtin":
            fn = FUNCS[f[1]]
            try:
                if f[1] in ("np.zeros", "np.empty", "np.array", "np.asarray", "np.ones", "np.full", "np.linspace", "np.isclose", "np.concatenate", "np.fromiter"):
                    return fn(*args, **kwargs)
                if kwargs and f[1] not in ("enumerate",):
                    raise Unsupported("keyword arguments of " + f[1])
                return fn(*args, **kwargs)
            except (Unsupported, Raised):
                raise
            except ZeroDivisionError:
                raise Raised("division by zero")
            except (TypeError, ValueError, IndexError, OverflowError) as ex:
                raise Unsupported(f"{f[1]}: {ex}")
        if callable(f) and not isinstance(f, (Sym, Obj, tuple)):
            try:
                return f(*args, **kwargs)
            except ZeroDivisionError:
                raise Raised("division by zero")
            except (TypeError, ValueError, OverflowError) as ex:
                raise Unsupported(str(ex))
        if isinstance(f, tuple) and f[0] == "method":
            _, base, name = f
            if isinstance(base, list) and name in ("append", "extend", "copy", "index", "count", "insert", "pop"):
                try:
                    return getattr(base, name)(*args)
                except (IndexError, ValueError):
                    raise Raised("list operation")
            if isinstance(base, set) and name in ("add", "discard", "update", "remove"):
                try:
                    return getattr(base, name)(*args)
                except (KeyError, TypeError):
                    raise Raised("set operation")
            if isinstance(base, dict) and name in ("get", "keys", "values", "items", "setdefault"):
                r = getattr(base, name)(*args)
                return list(r) if name in ("keys", "values", "items") else r
            if isinstance(base, Arr):
                if name == "copy":
                    return Arr(base.d)
                if name == "astype":
                    return Arr(args[0](x) for x in base.d) if args and args[0] in (float, int, complex) else Arr(base.d)
                if name in ("conj", "conjugate"):
                    return Arr(complex(x).conjugate() for x in base.d)
                if name == "tolist":
                    return list(base.d)
                if name == "fill":
                    for i in range(len(base)):
                        base._set(i, args[0])
                    return None
            raise Unsupported(f"method {name}")
        if isinstance(f, tuple) and f[0] == "pkgfn":
            return self.it.call_function(f[2], args, kwargs, mod=f[1], depth=self.depth + 1)
        if isinstance(f, tuple) and f[0] == "localfn":
            return self._call_local(f[1], args, kwargs)
        if isinstance(f, tuple) and f[0] == "objmethod":
            mm, fn, owner = self.it.method_of(f[1], f[2])
            recv = [] if Interp.is_static(fn) else [f[1]]
            return self.it.call_function(fn, recv + args, kwargs, mod=mm, depth=self.depth + 1)
        if isinstance(f, tuple) and f[0] == "strmethod":
            return getattr(f[1], f[2])(*args)
        if isinstance(f, tuple) and f[0] == "lambda":
            lam, home = f[1], f[2]
            a = lam.args
            pos = [x.arg for x in a.posonlyargs + a.args]
            if a.vararg or a.kwarg or a.kwonlyargs or len(args) > len(pos) or kwargs:
                raise Unsupported("lambda signature")
            env = Env(home.env)
            fr = Frame(self.it, env, home.mod, self.depth + 1)
            if self.depth + 1 > self.it.max_depth + 4:
                raise Unsupported("call depth")
            for p, d in zip(pos[len(pos) - len(a.defaults):], a.defaults):
                dict.__setitem__(env, p, fr.ev(d))
            for p, v in zip(pos, args):
                dict.__setitem__(env, p, v)
            if any(not dict.__contains__(env, p) for p in pos):
                raise Unsupported("lambda arguments")
            return fr.ev(lam.body)
        raise Unsupported(f"call of {au.src(c.func)}")

    def _call_local(self, fn, args, kwargs):
        a = fn.args
        pos = [x.arg for x in a.posonlyargs + a.args]
        if a.vararg or a.kwarg or len(args) > len(pos):
            raise Unsupported("local function signature")
        nl = {n for st in ast.walk(fn) if isinstance(st, (ast.Nonlocal, ast.Global)) for n in st.names}
        env = Env(self.env, nl)
        for p, v in zip(pos, args):
            dict.__setitem__(env, p, v)
        for k, v in kwargs.items():
            dict.__setitem__(env, k, v)
        fr = Frame(self.it, env, self.mod, self.depth + 1)
        if self.depth + 1 > self.it.max_depth:
            raise Unsupported("call depth")
        for p, d in zip(pos[len(pos) - len(a.defaults):], a.defaults):
            if not dict.__contains__(env, p):
                dict.__setitem__(env, p, fr.ev(d))
        if any(not dict.__contains__(env, p) for p in pos):
            raise Unsupported("missing argument of a local function")
        if any(isinstance(n, (ast.Yield, ast.YieldFrom)) for n in au.walk(fn.body)):
            fr.yields = []
            try:
                fr.block(fn.body)
            except _Return:
                pass
            return fr.yields
        try:
            fr.block(fn.body)
        except _Return as r:
            return r.v
        return None


def _load(t):
    from .. import sym
    e = sym.clone(t)
    for n in ast.walk(e):
        if hasattr(n, "ctx"):
            n.ctx = ast.Load()
    return e
