"""Helpers private to the C15 / C17 / C18 property modules.

* `path_condition`  - the conjunction of conditions under which a statement executes
  (enclosing if/while tests *and* preceding `if c: continue/return/break/raise` siblings), so that
  `if not c: continue; X` and `if c: X` are the same construct for the rules.
* `Abstractor`      - turns such a condition into an AST over plain names that `order.compare`
  can evaluate under every ordering / truth assignment (R-ORDER).
* `must_flow`       - thin wrapper around `flow.Flow` for gen/kill must-facts (R-MUST).
* small polynomial helpers (1/x atoms, floor-division atoms) for C17-Q1.
"""
from __future__ import annotations
import ast, copy, math
from fractions import Fraction
from .. import au, sym, order, flow


# ----------------------------------------------------------------- path conditions
def _index(blk, st):
    for i, s in enumerate(blk):
        if s is st:
            return i
    return None


def terminates(body) -> bool:
    """no path falls off the end of `body` (return / raise / continue / break on all paths)"""
    return bool(body) and flow.always_terminates(body)


def path_condition(node, stop=None):
    """[(test, polarity, at)] that hold whenever `node` executes, innermost first.  `at` is the node
    at which names of `test` have to be resolved."""
    out = []
    cur = au.enclosing_stmt(node)
    # expression-level guards (IfExp / comprehension ifs) between node and its statement
    if cur is not node:
        for t, pol in au.guards(node, stop=cur):
            out.append((t, pol, node))
    while cur is not None and cur is not stop and not isinstance(cur, (ast.FunctionDef, ast.AsyncFunctionDef, ast.Module)):
        blk, owner = au.enclosing_block(cur)
        if blk is None:
            if isinstance(owner, ast.ExceptHandler):
                cur = au.parent(owner)
                continue
            break
        idx = _index(blk, cur)
        for s in reversed(blk[:idx]):
            if isinstance(s, ast.If):
                bt = terminates(s.body)
                ot = terminates(s.orelse)
                if bt and not ot:
                    out.append((s.test, False, s))
                elif ot and not bt:
                    out.append((s.test, True, s))
        if isinstance(owner, (ast.If, ast.While)):
            if blk is owner.body:
                out.append((owner.test, True, owner))
            elif isinstance(owner, ast.If) and blk is owner.orelse:
                out.append((owner.test, False, owner))
        if owner is stop or isinstance(owner, (ast.FunctionDef, ast.AsyncFunctionDef, ast.Module)):
            break
        cur = owner
    return out


def conj(parts):
    """AST of the conjunction of [(expr, polarity)]"""
    vals = []
    for e, pol in parts:
        vals.append(e if pol else ast.UnaryOp(op=ast.Not(), operand=e))
    if not vals:
        return ast.Constant(value=True)
    if len(vals) == 1:
        return vals[0]
    return ast.BoolOp(op=ast.And(), values=vals)


# ----------------------------------------------------------------- abstraction to names
def rounded_const(e):
    """Constant-fold (order.fold_const) and round, so that cos(pi/3) and 0.5 are the same threshold."""
    v = order.fold_const(e)
    if v is None:
        return None
    if isinstance(v, float):
        v = round(v, 9)
        if v == int(v) and abs(v) < 1e12:
            v = int(v)
    return v


class Abstractor:
    """Rewrite a boolean AST into one whose leaves are Names / numeric Constants.

    atom(expr, boolean: bool) -> replacement AST | None.  Unrecognised leaves are replaced by fresh
    names and listed in `unknown` (the caller decides whether that is fatal)."""

    def __init__(self, atom):
        self.atom = atom
        self.unknown = []
        self._names = {}

    def _fresh(self, e, prefix):
        k = au.norm(e)
        if k not in self._names:
            self._names[k] = f"{prefix}{len(self._names)}"
            self.unknown.append(au.src(e))
        return ast.Name(id=self._names[k], ctx=ast.Load())

    def boolean(self, e):
        if isinstance(e, ast.BoolOp):
            return ast.BoolOp(op=e.op, values=[self.boolean(v) for v in e.values])
        if isinstance(e, ast.UnaryOp) and isinstance(e.op, ast.Not):
            return ast.UnaryOp(op=ast.Not(), operand=self.boolean(e.operand))
        if isinstance(e, ast.Constant) and isinstance(e.value, bool):
            return e
        r = self.atom(e, True)
        if r is not None:
            return r
        if isinstance(e, ast.Compare) and all(type(o) in order.CMP for o in e.ops):
            return ast.Compare(left=self.term(e.left), ops=list(e.ops), comparators=[self.term(c) for c in e.comparators])
        return self._fresh(e, "unk")

    def term(self, e):
        v = rounded_const(e)
        if v is not None:
            return ast.Constant(value=v)
        r = self.atom(e, False)
        if r is not None:
            return r
        if isinstance(e, ast.UnaryOp) and isinstance(e.op, ast.USub):
            return ast.UnaryOp(op=ast.USub(), operand=self.term(e.operand))
        return self._fresh(e, "t")


def name(s):
    return ast.Name(id=s, ctx=ast.Load())


def sym_of_name(n):
    if isinstance(n, ast.Name):
        return n.id
    raise order.Unsupported(au.src(n))


def compare(code_expr, spec_src):
    """order.compare over an abstracted predicate; returns (witness | None, n_envs)."""
    return order.compare(code_expr, spec_src, sym=sym_of_name)


def fmt_env(env):
    return ", ".join(f"{k.lstrip('?')}={v}" for k, v in sorted(env.items()))


# ----------------------------------------------------------------- must facts
def must_flow(body, gen_kill, init=frozenset(), refine=None, observe=None):
    """Forward must-analysis.  gen_kill(node) -> (gen:set, kill:set) for a simple statement / test
    expression / for-head; observe(state, node) is called before the transfer.  Returns the Flow
    (exits available as .exits)."""
    def t(state, st):
        if observe is not None:
            observe(state, st)
        g, k = gen_kill(st)
        return (state - frozenset(k)) | frozenset(g)

    f = flow.Flow(t, test=t, refine=refine)
    f.run(body, frozenset(init))
    return f


# ----------------------------------------------------------------- polynomials with 1/x and // atoms
def poly(expr, env=None):
    """sym.to_poly with: pi folded, `a / b` for a non constant b as a * <1/b>, `a // b` as an atom named
    by the normal forms of a and b.  env: name -> Poly substitutions."""
    env = env or {}

    def rec(e):
        v = order.fold_const(e)
        if v is not None:
            return sym.Poly.const(Fraction(v).limit_denominator(10 ** 9))
        if isinstance(e, ast.Name):
            if e.id in env:
                return env[e.id]
            return sym.Poly.atom(e.id)
        if isinstance(e, ast.UnaryOp) and isinstance(e.op, ast.USub):
            return -rec(e.operand)
        if isinstance(e, ast.UnaryOp) and isinstance(e.op, ast.UAdd):
            return rec(e.operand)
        if isinstance(e, ast.BinOp):
            if isinstance(e.op, ast.Add):
                return rec(e.left) + rec(e.right)
            if isinstance(e.op, ast.Sub):
                return rec(e.left) - rec(e.right)
            if isinstance(e.op, ast.Mult):
                return rec(e.left) * rec(e.right)
            if isinstance(e.op, ast.Div):
                r = rec(e.right)
                if r.is_const() and r.const_value() != 0:
                    return rec(e.left).scale(1 / r.const_value())
                return rec(e.left) * sym.Poly.atom("1/(" + repr(r) + ")")
            if isinstance(e.op, ast.FloorDiv):
                return sym.Poly.atom("(" + repr(rec(e.left)) + ")//(" + repr(rec(e.right)) + ")")
            if isinstance(e.op, ast.Pow) and isinstance(e.right, ast.Constant) and isinstance(e.right.value, int) \
                    and 0 <= e.right.value <= 4:
                out = sym.Poly.const(1)
                for _ in range(e.right.value):
                    out = out * rec(e.left)
                return out
        return sym.Poly.atom("<" + au.src(e) + ">")
    return rec(expr)


def approx_eq(p, q, tol=1e-6):
    keys = set(p.t) | set(q.t)
    return all(abs(float(p.t.get(k, 0)) - float(q.t.get(k, 0))) <= tol for k in keys)


# ----------------------------------------------------------------- misc matchers
def subscript_stores(fn_or_body, base_pred):
    """[(stmt, target Subscript, value)] for `BASE[k] = v` / tuple forms / AugAssign, BASE satisfying base_pred."""
    out = []
    body = fn_or_body.body if hasattr(fn_or_body, "body") else fn_or_body
    for st in au.stmts(body):
        if isinstance(st, ast.Assign):
            for t in st.targets:
                if isinstance(t, ast.Subscript) and base_pred(t.value):
                    out.append((st, t, st.value))
                elif isinstance(t, (ast.Tuple, ast.List)):
                    vals = st.value.elts if isinstance(st.value, (ast.Tuple, ast.List)) and len(st.value.elts) == len(t.elts) else None
                    for i, x in enumerate(t.elts):
                        if isinstance(x, ast.Subscript) and base_pred(x.value):
                            out.append((st, x, vals[i] if vals else None))
        elif isinstance(st, ast.AugAssign):
            if isinstance(st.target, ast.Subscript) and base_pred(st.target.value):
                out.append((st, st.target, None))
        elif isinstance(st, ast.AnnAssign) and st.value is not None:
            if isinstance(st.target, ast.Subscript) and base_pred(st.target.value):
                out.append((st, st.target, st.value))
    return out


def is_name(e, n=None):
    return isinstance(e, ast.Name) and (n is None or e.id == n)


def in_same_block(a, b):
    ba, _ = au.enclosing_block(a)
    bb, _ = au.enclosing_block(b)
    return ba is not None and ba is bb


def block_pos(st):
    blk, _ = au.enclosing_block(st)
    return None if blk is None else _index(blk, st)


def increments(st, var):
    """k if `st` is `var += k` / `var = var + k` / `var = k + var` (k int literal) else None"""
    if isinstance(st, ast.AugAssign) and is_name(st.target, var) and isinstance(st.op, (ast.Add, ast.Sub)):
        k = au.const(st.value)
        if isinstance(k, int):
            return k if isinstance(st.op, ast.Add) else -k
        return "?"
    if isinstance(st, ast.Assign) and len(st.targets) == 1 and is_name(st.targets[0], var):
        if var not in au.names(st.value):
            return None
        try:
            p = sym.to_poly(st.value, opaque=False)
        except sym.NotPoly:
            return "?"
        if p.coeff(var) == sym.Poly.const(1) and p.without(var).is_const():
            c = p.without(var).const_value()
            if c.denominator == 1:
                return int(c)
        return "?"
    return None


def loop_ancestors(node, stop=None):
    out = []
    for a in au.ancestors(node):
        if a is stop:
            break
        if isinstance(a, (ast.For, ast.While)):
            out.append(a)
        if isinstance(a, (ast.FunctionDef, ast.AsyncFunctionDef)):
            break
    return out


def increments_in(loop, var):
    return any(increments(s, var) is not None for s in au.stmts(loop.body))


def top_stmt_in(body, node):
    """the direct statement of `body` that contains (or is) `node`"""
    cur = node
    while cur is not None:
        if any(cur is s for s in body):
            return cur
        cur = au.parent(cur)
    return None


class Floor:
    """Guard against a matcher that silently recognises fewer constructs than were confirmed by hand.  The anchored functions
    exist (a vanished function raises AnalysisError in repo.func), so a shortfall means the protected constructs changed shape:
    that is reported as a finding (protection removed), not as an analysis error.  Nothing is added when a finding was
    already reported in the section (the shortfall is then explained by it)."""

    def __init__(self, ctx, rule):
        self.ctx, self.rule = ctx, rule
        self.n0 = ctx.instances.get(rule, 0)
        self.f0 = len(ctx.findings)
        self.fn0 = set(ctx.functions)

    def require(self, at_least, label=None):
        from ..core import Site
        n = self.ctx.instances.get(self.rule, 0) - self.n0
        nf = len(self.ctx.findings) - self.f0
        if nf == 0 and n < at_least:
            touched = sorted(self.ctx.functions - self.fn0) or sorted(self.ctx.functions)
            mod, _, qual = (touched[0] if touched else "mouette::?").partition("::")
            self.ctx.fail(self.rule, Site(mod, qual, 0), f"{label or self.rule}: protected constructs not found",
                          f"only {n} of the {at_least} obligations confirmed by hand could be located: the code the rule protects has "
                          "changed shape and can no longer be vouched for")
        return n


# ----------------------------------------------------------------- partitioned linear systems
def block_parts(e):
    """`M[R, :][:, C]` -> (M, R, C)"""
    if isinstance(e, ast.Subscript) and isinstance(e.value, ast.Subscript):
        inner, outer = e.value, e.slice
        if isinstance(outer, ast.Tuple) and len(outer.elts) == 2 and isinstance(outer.elts[0], ast.Slice) \
                and outer.elts[0].lower is None and outer.elts[0].upper is None:
            cols = outer.elts[1]
            r = inner.slice
            if isinstance(r, ast.Tuple) and len(r.elts) == 2 and isinstance(r.elts[1], ast.Slice) \
                    and r.elts[1].lower is None and r.elts[1].upper is None:
                r = r.elts[0]
            elif isinstance(r, ast.Tuple):
                return None
            return inner.value, r, cols
    return None


def signed(e):
    """(sign, expr) with leading negations stripped"""
    s = 1
    while True:
        if isinstance(e, ast.UnaryOp) and isinstance(e.op, ast.USub):
            s, e = -s, e.operand
        elif isinstance(e, ast.BinOp) and isinstance(e.op, ast.Mult) and au.const(e.left) in (-1, -1.0):
            s, e = -s, e.right
        else:
            return s, e


def matvec(e):
    """(sign, M, x) for  M.dot(x) / M @ x / M * x  with negations anywhere"""
    s, e = signed(e)
    if isinstance(e, ast.Call) and au.call_tail(e) == "dot" and isinstance(e.func, ast.Attribute) and len(e.args) == 1:
        s1, m = signed(e.func.value)
        s2, x = signed(e.args[0])
        return s * s1 * s2, m, x
    if isinstance(e, ast.BinOp) and isinstance(e.op, (ast.MatMult, ast.Mult)):
        s1, m = signed(e.left)
        s2, x = signed(e.right)
        return s * s1 * s2, m, x
    return None


# ----------------------------------------------------------------- geometry caches (reuse-if-present vs persistent)
def persistent_call_facts(repo, modname, call):
    """For a call of a package function that has a `persistent` parameter: dict(persistent, name, container) with
    persistent in (True, False, None=not constant), name = attribute name (const or None), container = e.g. 'faces'.
    None when the callee is not such a function."""
    fname = au.call_tail(call)
    target = None
    if isinstance(call.func, ast.Name):
        target = repo.resolve_func(modname, call.func.id)
    elif isinstance(call.func, ast.Attribute) and isinstance(call.func.value, ast.Name):
        r = repo.resolve(modname, call.func.value.id)
        if r and r[0] == "module" and r[1] in repo.modules:
            target = repo.resolve_func(r[1], call.func.attr)
    if not target or target[1] is None:
        return None
    mod, fn = target
    a = fn.args
    pos = [x.arg for x in a.posonlyargs + a.args]
    if "persistent" not in pos + [x.arg for x in a.kwonlyargs]:
        return None
    defaults = dict(zip(pos[len(pos) - len(a.defaults):], a.defaults))
    defaults.update({x.arg: d for x, d in zip(a.kwonlyargs, a.kw_defaults) if d is not None})
    given = {}
    for i, arg in enumerate(call.args):
        if i < len(pos):
            given[pos[i]] = arg
    for kw in call.keywords:
        if kw.arg:
            given[kw.arg] = kw.value

    def val(pname):
        e = given.get(pname, defaults.get(pname))
        return e.value if isinstance(e, ast.Constant) else None
    pers = val("persistent")
    if not isinstance(pers, bool):
        pers = None
    container = None
    mesh_p = pos[0] if pos else "mesh"
    for c in au.calls(fn):
        if au.call_tail(c) == "create_attribute" and isinstance(c.func, ast.Attribute) and isinstance(c.func.value, ast.Attribute) \
                and is_name(c.func.value.value, mesh_p) and c.args and is_name(c.args[0], "name"):
            container = c.func.value.attr
    nm = val("name")
    return {"persistent": pers, "name": nm if isinstance(nm, str) else None, "container": container, "callee": mod.name + "." + fn.name}


def reused_attributes(fn_list):
    """{(container, name)} of attributes read back through `X.<container>.has_attribute(NAME)` / get_attribute(NAME)"""
    out = set()
    for fn in fn_list:
        for c in au.calls(fn):
            if au.call_tail(c) in ("has_attribute", "get_attribute") and isinstance(c.func, ast.Attribute) \
                    and isinstance(c.func.value, ast.Attribute) and c.args and isinstance(au.const(c.args[0]), str):
                out.add((c.func.value.attr, au.const(c.args[0])))
    return out


# ----------------------------------------------------------------- orientation of the border walk
def border_walk_shape(fn):
    """Facts about `extract_border_cycle`: index of the first neighbour taken at the start, scan direction of the
    inner choice loop, presence of the first-match break.  Values are None when the construct is not recognised."""
    ps = au.params(fn)
    start = ps[1] if len(ps) > 1 else None
    whiles = [s for s in fn.body if isinstance(s, ast.While)]
    out = {"start": start, "while": whiles[0] if len(whiles) == 1 else None, "first": None, "scan": None, "loop": None,
           "cur": None, "break": None}
    wl = out["while"]
    if wl is None or start is None:
        return out
    b = sym.Bindings(fn)
    for lp in au.stmts(wl.body):
        if not (isinstance(lp, ast.For) and isinstance(lp.target, ast.Name)):
            continue
        it = lp.iter
        direction = "forward"
        if isinstance(it, ast.Call) and au.call_tail(it) == "reversed" and len(it.args) == 1:
            it, direction = it.args[0], "backward"
        elif isinstance(it, ast.Subscript) and isinstance(it.slice, ast.Slice) and it.slice.lower is None and it.slice.upper is None \
                and au.const(it.slice.step) == -1:
            it, direction = it.value, "backward"
        if isinstance(it, ast.Call) and au.call_tail(it) == "vertex_to_vertices" and len(it.args) == 1 and isinstance(it.args[0], ast.Name):
            out["loop"], out["scan"], out["cur"] = lp, direction, it.args[0].id
            out["break"] = any(isinstance(x, ast.Break) for x in au.stmts(lp.body))
    if out["cur"]:
        c0 = b.resolve(ast.Name(id=out["cur"], ctx=ast.Load()), at=wl, keep=(start,))
        if isinstance(c0, ast.Subscript) and isinstance(c0.value, ast.Call) and au.call_tail(c0.value) == "vertex_to_vertices" \
                and len(c0.value.args) == 1 and is_name(c0.value.args[0], start):
            k = au.const(c0.slice)
            out["first"] = {0: "head", -1: "tail"}.get(k, "other") if isinstance(k, int) else "other"
    return out


def check_walk_orientation(ctx, rule, modname, fn):
    sh = border_walk_shape(fn)
    site = ctx.site(modname, fn, sh["loop"] or sh["while"] or fn)
    if sh["first"] is None or sh["scan"] is None:
        ctx.fail(rule, site, "extract_border_cycle: first step `vertex_to_vertices(start)[k]` / choice loop over vertex_to_vertices(current) not found",
                 "the orientation of the walk cannot be established")
        return
    ok = (sh["first"], sh["scan"]) in (("head", "forward"), ("tail", "backward"))
    ctx.check(ok, rule, site, "extract_border_cycle: the first step and the scan of the neighbours do not walk the border in one orientation",
              f"first step takes the {sh['first']} of the sorted neighbour list, the choice loop scans it {sh['scan']}: the sorted neighbours of a "
              "border vertex start and end with its two border neighbours, interior chords to other border vertices lie in between.  Leaving "
              "through the head, the vertex just left is the tail of the next list and the next border vertex its head (first match); leaving "
              "through the tail while scanning forward meets the chords first: the walk follows an interior edge",
              note=f"walk leaves through the {sh['first']} and scans {sh['scan']}")
    ctx.check(bool(sh["break"]), rule, site, "extract_border_cycle: the choice loop does not stop at the first admissible neighbour",
              "only the first admissible neighbour in scan order is guaranteed to be joined by a border edge", note="first match wins")


def check_sort_contract(ctx, rule, modname="mesh.datatypes.surface", qual="SurfaceMesh._Connectivity._sort_vertex_neighborhoods"):
    """the clause of the sorting contract the walk relies on: neighbours whose half edge (A, v) has no corner sort first, ascending"""
    fn = ctx.repo.func(modname, qual)
    site = ctx.site(modname, fn)
    ok_default = ok_sort = False
    keyname = None
    for st in au.stmts(fn.body):
        if isinstance(st, ast.Assign) and len(st.targets) == 1 and isinstance(st.targets[0], ast.Subscript) \
                and isinstance(st.value, ast.Call) and au.call_tail(st.value) == "get" and len(st.value.args) == 2 \
                and isinstance(st.value.args[0], ast.Call) and au.call_tail(st.value.args[0]) == "half_edge_to_corner":
            d = st.value.args[1]
            neg_inf = isinstance(d, ast.UnaryOp) and isinstance(d.op, ast.USub) and (
                (isinstance(d.operand, ast.Call) and au.call_tail(d.operand) == "float" and d.operand.args and au.const(d.operand.args[0]) == "inf")
                or au.src(d.operand) in ("math.inf", "np.inf", "inf"))
            ok_default = neg_inf
            keyname = st.targets[0].value.id if isinstance(st.targets[0].value, ast.Name) else None
    for c in au.calls(fn):
        if au.call_tail(c) == "sort" and isinstance(c.func, ast.Attribute) and isinstance(c.func.value, ast.Subscript) \
                and au.is_self_attr(c.func.value.value, "_adjV2V"):
            kws = {k.arg: k.value for k in c.keywords}
            key = kws.get("key")
            ok_sort = isinstance(key, ast.Lambda) and keyname is not None and isinstance(key.body, ast.Subscript) \
                and is_name(key.body.value, keyname) and "reverse" not in kws
    ctx.check(ok_default and ok_sort, rule, site,
              "_sort_vertex_neighborhoods: the neighbour without a half-edge corner is not sorted first (key -inf, ascending)",
              "extract_border_cycle relies on the sorted neighbour list of a border vertex starting with one border neighbour and ending with the other",
              note="sorting contract: corner-less border neighbour first, ascending")
