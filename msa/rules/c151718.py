"""Helpers private to the C15 / C17 / C18 property modules.

* `path_condition`  - the conjunction of conditions under which a statement executes
  (enclosing if/while tests *and* preceding `if c: continue/return/break/raise` siblings), so that
  `if not c: continue; X` and `if c: X` are the same construct for the rules.
* `Abstractor`      - turns such a condition into an AST over plain names that `order.compare`
  can evaluate under every ordering / truth assignment (R-ORDER).
* `must_flow`       - thin wrapper around `flow.Flow` for gen/kill must-facts (R-MUST).
* small polynomial helpers (1/x atoms, floor-division atoms) for C17-Q1.
"""
from __future__ import annotations
import ast, copy, math
from fractions import Fraction
from .. import au, sym, order, flow


# ----------------------------------------------------------------- path conditions
def _index(blk, st):
    for i, s in enumerate(blk):
        if s is st:
            return i
    return None


def terminates(body) -> bool:
    """no path falls off the end of `body` (return / raise / continue / break on all paths)"""
    return bool(body) and flow.always_terminates(body)


def path_condition(node, stop=None):
    """[(test, polarity, at)] that hold whenever `node` executes, innermost first.  `at` is the node
    at which names of `test` have to be resolved."""
    out = []
    cur = au.enclosing_stmt(node)
    # expression-level guards (IfExp / comprehension ifs) between node and its statement
    if cur is not node:
        for t, pol in au.guards(node, stop=cur):
            out.append((t, pol, node))
    while cur is not None and cur is not stop and not isinstance(cur, (ast.FunctionDef, ast.AsyncFunctionDef, ast.Module)):
        blk, owner = au.enclosing_block(cur)
        if blk is None:
            if isinstance(owner, ast.ExceptHandler):
                cur = au.parent(owner)
                continue
            break
        idx = _index(blk, cur)
        for s in reversed(blk[:idx]):
            if isinstance(s, ast.If):
                bt = terminates(s.body)
                ot = terminates(s.orelse)
                if bt and not ot:
                    out.append((s.test, False, s))
                elif ot and not bt:
                    out.append((s.test, True, s))
        if isinstance(owner, (ast.If, ast.While)):
            if blk is owner.body:
                out.append((owner.test, True, owner))
            elif isinstance(owner, ast.If) and blk is owner.orelse:
                out.append((owner.test, False, owner))
        if owner is stop or isinstance(owner, (ast.FunctionDef, ast.AsyncFunctionDef, ast.Module)):
            break
        cur = owner
    return out


def conj(parts):
    """AST of the conjunction of [(expr, polarity)]"""
    vals = []
    for e, pol in parts:
        vals.append(e if pol else ast.UnaryOp(op=ast.Not(), operand=e))
    if not vals:
        return ast.Constant(value=True)
    if len(vals) == 1:
        return vals[0]
    return ast.BoolOp(op=ast.And(), values=vals)


# ----------------------------------------------------------------- abstraction to names
def rounded_const(e):
    """Constant-fold (order.fold_const) and round, so that cos(pi/3) and 0.5 are the same threshold."""
    v = order.fold_const(e)
    if v is None:
        return None
    if isinstance(v, float):
        v = round(v, 9)
        if v == int(v) and abs(v) < 1e12:
            v = int(v)
    return v


class Abstractor:
    """Rewrite a boolean AST into one whose leaves are Names / numeric Constants.

    atom(expr, boolean: bool) -> replacement AST | None.  Unrecognised leaves are replaced by fresh
    names and listed in `unknown` (the caller decides whether that is fatal)."""

    def __init__(self, atom):
        self.atom = atom
        self.unknown = []
        self._names = {}

    def _fresh(self, e, prefix):
        k = au.norm(e)
        if k not in self._names:
            self._names[k] = f"{prefix}{len(self._names)}"
            self.unknown.append(au.src(e))
        return ast.Name(id=self._names[k], ctx=ast.Load())

    def boolean(self, e):
        if isinstance(e, ast.BoolOp):
            return ast.BoolOp(op=e.op, values=[self.boolean(v) for v in e.values])
        if isinstance(e, ast.UnaryOp) and isinstance(e.op, ast.Not):
            return ast.UnaryOp(op=ast.Not(), operand=self.boolean(e.operand))
        if isinstance(e, ast.Constant) and isinstance(e.value, bool):
            return e
        r = self.atom(e, True)
        if r is not None:
            return r
        if isinstance(e, ast.Compare) and all(type(o) in order.CMP for o in e.ops):
            return ast.Compare(left=self.term(e.left), ops=list(e.ops), comparators=[self.term(c) for c in e.comparators])
        return self._fresh(e, "unk")

    def term(self, e):
        v = rounded_const(e)
        if v is not None:
            return ast.Constant(value=v)
        r = self.atom(e, False)
        if r is not None:
            return r
        if isinstance(e, ast.UnaryOp) and isinstance(e.op, ast.USub):
            return ast.UnaryOp(op=ast.USub(), operand=self.term(e.operand))
        return self._fresh(e, "t")


def name(s):
    return ast.Name(id=s, ctx=ast.Load())


def sym_of_name(n):
    if isinstance(n, ast.Name):
        return n.id
    raise order.Unsupported(au.src(n))


def compare(code_expr, spec_src):
    """order.compare over an abstracted predicate; returns (witness | None, n_envs)."""
    return order.compare(code_expr, spec_src, sym=sym_of_name)


def fmt_env(env):
    return ", ".join(f"{k.lstrip('?')}={v}" for k, v in sorted(env.items()))


# ----------------------------------------------------------------- must facts
def must_flow(body, gen_kill, init=frozenset(), refine=None, observe=None):
    """Forward must-analysis.  gen_kill(node) -> (gen:set, kill:set) for a simple statement / test
    expression / for-head; observe(state, node) is called before the transfer.  Returns the Flow
    (exits available as .exits)."""
    def t(state, st):
        if observe is not None:
            observe(state, st)
        g, k = gen_kill(st)
        return (state - frozenset(k)) | frozenset(g)

    f = flow.Flow(t, test=t, refine=refine)
    f.run(body, frozenset(init))
    return f


# ----------------------------------------------------------------- polynomials with 1/x and // atoms
def poly(expr, env=None):
    """sym.to_poly with: pi folded, `a / b` for a non constant b as a * <1/b>, `a // b` as an atom named
    by the normal forms of a and b.  env: name -> Poly substitutions."""
    env = env or {}

    def rec(e):
        v = order.fold_const(e)
        if v is not None:
            return sym.Poly.const(Fraction(v).limit_denominator(10 ** 9))
        if isinstance(e, ast.Name):
            if e.id in env:
                return env[e.id]
            return sym.Poly.atom(e.id)
        if isinstance(e, ast.UnaryOp) and isinstance(e.op, ast.USub):
            return -rec(e.operand)
        if isinstance(e, ast.UnaryOp) and isinstance(e.op, ast.UAdd):
            return rec(e.operand)
        if isinstance(e, ast.BinOp):
            if isinstance(e.op, ast.Add):
                return rec(e.left) + rec(e.right)
            if isinstance(e.op, ast.Sub):
                return rec(e.left) - rec(e.right)
            if isinstance(e.op, ast.Mult):
                return rec(e.left) * rec(e.right)
            if isinstance(e.op, ast.Div):
                r = rec(e.right)
                if r.is_const() and r.const_value() != 0:
                    return rec(e.left).scale(1 / r.const_value())
                return rec(e.left) * sym.Poly.atom("1/(" + repr(r) + ")")
            if isinstance(e.op, ast.FloorDiv):
                return sym.Poly.atom("(" + repr(rec(e.left)) + ")//(" + repr(rec(e.right)) + ")")
            if isinstance(e.op, ast.Pow) and isinstance(e.right, ast.Constant) and isinstance(e.right.value, int) \
                    and 0 <= e.right.value <= 4:
                out = sym.Poly.const(1)
                for _ in range(e.right.value):
                    out = out * rec(e.left)
                return out
        return sym.Poly.atom("<" + au.src(e) + ">")
    return rec(expr)


def approx_eq(p, q, tol=1e-6):
    keys = set(p.t) | set(q.t)
    return all(abs(float(p.t.get(k, 0)) - float(q.t.get(k, 0))) <= tol for k in keys)


# ----------------------------------------------------------------- misc matchers
def subscript_stores(fn_or_body, base_pred):
    """[(stmt, target Subscript, value)] for `BASE[k] = v` / tuple forms / AugAssign, BASE satisfying base_pred."""
    out = []
    body = fn_or_body.body if hasattr(fn_or_body, "body") else fn_or_body
    for st in au.stmts(body):
        if isinstance(st, ast.Assign):
            for t in st.targets:
                if isinstance(t, ast.Subscript) and base_pred(t.value):
                    out.append((st, t, st.value))
                elif isinstance(t, (ast.Tuple, ast.List)):
                    vals = st.value.elts if isinstance(st.value, (ast.Tuple, ast.List)) and len(st.value.elts) == len(t.elts) else None
                    for i, x in enumerate(t.elts):
                        if isinstance(x, ast.Subscript) and base_pred(x.value):
                            out.append((st, x, vals[i] if vals else None))
        elif isinstance(st, ast.AugAssign):
            if isinstance(st.target, ast.Subscript) and base_pred(st.target.value):
                out.append((st, st.target, None))
        elif isinstance(st, ast.AnnAssign) and st.value is not None:
            if isinstance(st.target, ast.Subscript) and base_pred(st.target.value):
                out.append((st, st.target, st.value))
    return out


def is_name(e, n=None):
    return isinstance(e, ast.Name) and (n is None or e.id == n)


def in_same_block(a, b):
    ba, _ = au.enclosing_block(a)
    bb, _ = au.enclosing_block(b)
    return ba is not None and ba is bb


def block_pos(st):
    blk, _ = au.enclosing_block(st)
    return None if blk is None else _index(blk, st)


def increments(st, var):
    """k if `st` is `var += k` / `var = var + k` / `var = k + var` (k int literal) else None"""
    if isinstance(st, ast.AugAssign) and is_name(st.target, var) and isinstance(st.op, (ast.Add, ast.Sub)):
        k = au.const(st.value)
        if isinstance(k, int):
            return k if isinstance(st.op, ast.Add) else -k
        return "?"
    if isinstance(st, ast.Assign) and len(st.targets) == 1 and is_name(st.targets[0], var):
        if var not in au.names(st.value):
            return None
        try:
            p = sym.to_poly(st.value, opaque=False)
        except sym.NotPoly:
            return "?"
        if p.coeff(var) == sym.Poly.const(1) and p.without(var).is_const():
            c = p.without(var).const_value()
            if c.denominator == 1:
                return int(c)
        return "?"
    return None


def loop_ancestors(node, stop=None):
    out = []
    for a in au.ancestors(node):
        if a is stop:
            break
        if isinstance(a, (ast.For, ast.While)):
            out.append(a)
        if isinstance(a, (ast.FunctionDef, ast.AsyncFunctionDef)):
            break
    return out


def increments_in(loop, var):
    return any(increments(s, var) is not None for s in au.stmts(loop.body))


def top_stmt_in(body, node):
    """the direct statement of `body` that contains (or is) `node`"""
    cur = node
    while cur is not None:
        if any(cur is s for s in body):
            return cur
        cur = au.parent(cur)
    return None


class Floor:
    """Guard against a matcher that silently recognises fewer constructs than were confirmed by hand.  The anchored functions
    exist (a vanished function raises AnalysisError in repo.func), so a shortfall means the protected constructs changed shape:
    that is reported as a finding (protection removed), not as an analysis error.  Nothing is added when a finding was
    already reported in the section (the shortfall is then explained by it)."""

    def __init__(self, ctx, rule):
        self.ctx, self.rule = ctx, rule
        self.n0 = ctx.instances.get(rule, 0)
        self.f0 = len(ctx.findings)
        self.fn0 = set(ctx.functions)

    def require(self, at_least, label=None):
        from ..core import Site
        n = self.ctx.instances.get(self.rule, 0) - self.n0
        nf = len(self.ctx.findings) - self.f0
        if nf == 0 and n < at_least:
            touched = sorted(self.ctx.functions - self.fn0) or sorted(self.ctx.functions)
            mod, _, qual = (touched[0] if touched else "mouette::?").partition("::")
            self.ctx.fail(self.rule, Site(mod, qual, 0), f"{label or self.rule}: protected constructs not found",
                          f"only {n} of the {at_least} obligations confirmed by hand could be located: the code the rule protects has "
                          "changed shape and can no longer be vouched for")
        return n


# ----------------------------------------------------------------- partitioned linear systems
def block_parts(e):
    """`M[R, :][:, C]` -> (M, R, C)"""
    if isinstance(e, ast.Subscript) and isinstance(e.value, ast.Subscript):
        inner, outer = e.value, e.slice
        if isinstance(outer, ast.Tuple) and len(outer.elts) == 2 and isinstance(outer.elts[0], ast.Slice) \
                and outer.elts[0].lower is None and outer.elts[0].upper is None:
            cols = outer.elts[1]
            r = inner.slice
            if isinstance(r, ast.Tuple) and len(r.elts) == 2 and isinstance(r.elts[1], ast.Slice) \
                    and r.elts[1].lower is None and r.elts[1].upper is None:
                r = r.elts[0]
            elif isinstance(r, ast.Tuple):
                return None
            return inner.value, r, cols
    return None


def signed(e):
    """(sign, expr) with leading negations stripped"""
    s = 1
    while True:
        if isinstance(e, ast.UnaryOp) and isinstance(e.op, ast.USub):
            s, e = -s, e.operand
        elif isinstance(e, ast.BinOp) and isinstance(e.op, ast.Mult) and au.const(e.left) in (-1, -1.0):
            s, e = -s, e.right
        else:
            return s, e


def matvec(e):
    """(sign, M, x) for  M.dot(x) / M @ x / M * x  with negations anywhere"""
    s, e = signed(e)
    if isinstance(e, ast.Call) and au.call_tail(e) == "dot" and isinstance(e.func, ast.Attribute) and len(e.args) == 1:
        s1, m = signed(e.func.value)
        s2, x = signed(e.args[0])
        return s * s1 * s2, m, x
    if isinstance(e, ast.BinOp) and isinstance(e.op, (ast.MatMult, ast.Mult)):
        s1, m = signed(e.left)
        s2, x = signed(e.right)
        return s * s1 * s2, m, x
    return None


# ----------------------------------------------------------------- geometry caches (reuse-if-present vs persistent)
def persistent_call_facts(repo, modname, call):
    """For a call of a package function that has a `persistent` parameter: dict(persistent, name, container) with
    persistent in (True, False, None=not constant), name = attribute name (const or None), container = e.g. 'faces'.
    None when the callee is not such a function."""
    fname = au.call_tail(call)
    target = None
    if isinstance(call.func, ast.Name):
        target = repo.resolve_func(modname, call.func.id)
    elif isinstance(call.func, ast.Attribute) and isinstance(call.func.value, ast.Name):
        r = repo.resolve(modname, call.func.value.id)
        if r and r[0] == "module" and r[1] in repo.modules:
            target = repo.resolve_func(r[1], call.func.attr)
    if not target or target[1] is None:
        return None
    mod, fn = target
    a = fn.args
    pos = [x.arg for x in a.posonlyargs + a.args]
    if "persistent" not in pos + [x.arg for x in a.kwonlyargs]:
        return None
    defaults = dict(zip(pos[len(pos) - len(a.defaults):], a.defaults))
    defaults.update({x.arg: d for x, d in zip(a.kwonlyargs, a.kw_defaults) if d is not None})
    given = {}
    for i, arg in enumerate(call.args):
        if i < len(pos):
            given[pos[i]] = arg
    for kw in call.keywords:
        if kw.arg:
            given[kw.arg] = kw.value

    def val(pname):
        e = given.get(pname, defaults.get(pname))
        return e.value if isinstance(e, ast.Constant) else None
    pers = val("persistent")
    if not isinstance(pers, bool):
        pers = None
    container = None
    mesh_p = pos[0] if pos else "mesh"
    for c in au.calls(fn):
        if au.call_tail(c) == "create_attribute" and isinstance(c.func, ast.Attribute) and isinstance(c.func.value, ast.Attribute) \
                and is_name(c.func.value.value, mesh_p) and c.args and is_name(c.args[0], "name"):
            container = c.func.value.attr
    nm = val("name")
    return {"persistent": pers, "name": nm if isinstance(nm, str) else None, "container": container, "callee": mod.name + "." + fn.name}


def reused_attributes(fn_list):
    """{(container, name)} of attributes read back through `X.<container>.has_attribute(NAME)` / get_attribute(NAME)"""
    out = set()
    for fn in fn_list:
        for c in au.calls(fn):
            if au.call_tail(c) in ("has_attribute", "get_attribute") and isinstance(c.func, ast.Attribute) \
                    and isinstance(c.func.value, ast.Attribute) and c.args and isinstance(au.const(c.args[0]), str):
                out.add((c.func.value.attr, au.const(c.args[0])))
    return out


# =================================================================================================================
# round 3 (hardening): role based recognisers on the normal form of hj_norm / canonical expressions of hj_scope
# =================================================================================================================
from . import hj_norm, hj_scope


class Unrecognised(Exception):
    """The code has a shape the recogniser does not read: the obligation ends `undecided` (neither pass nor alarm)."""

    def __init__(self, construct, what=""):
        super().__init__(construct)
        self.construct, self.what = construct, what


class Contradiction(Exception):
    """A recognised construct contradicts the clause: reported as a finding by the rule that asked."""

    def __init__(self, construct, what="", node=None, kind=None):
        super().__init__(construct)
        self.construct, self.what, self.node, self.kind = construct, what, node, kind


def norm_fn(ctx, modname, qual, keep=(), extra=(), public_methods=False, unroll=True, depth=3):
    """(normalised copy of the function, Scope over it, Normaliser) - cached per run"""
    cache = ctx.__dict__.setdefault("_hj_norm_cache", {})
    key = (modname, qual, tuple(sorted(keep)), tuple(sorted(extra)), public_methods, unroll, depth)
    if key not in cache:
        fn0 = ctx.repo.func(modname, qual)
        cls = qual.rsplit(".", 1)[0] if "." in qual and "<locals>" not in qual else None
        nz = hj_norm.Normaliser(ctx.repo, modname, cls, keep=keep, extra=extra, public_methods=public_methods, unroll=unroll, depth=depth)
        try:
            fn = nz.function(fn0)
        except RecursionError:
            raise
        cache[key] = (fn, hj_scope.Scope(fn), nz)
    return cache[key]


def undecided(ctx, rule, site, u: "Unrecognised"):
    ctx.undecided(rule, site, u.construct, u.what)


def tail(call):
    return au.call_tail(call) if isinstance(call, ast.Call) else None


def for_ancestors(node, stop=None):
    return [l for l in loop_ancestors(node, stop=stop) if isinstance(l, (ast.For, ast.AsyncFor))]


def strip_reversed(it):
    """(sequence expr, 'forward' | 'backward')"""
    if isinstance(it, ast.Call) and au.call_tail(it) == "reversed" and len(it.args) == 1:
        return it.args[0], "backward"
    if isinstance(it, ast.Subscript) and isinstance(it.slice, ast.Slice) and it.slice.lower is None and it.slice.upper is None:
        st = au.const(it.slice.step) if it.slice.step is not None else 1
        if st == -1:
            return it.value, "backward"
        if st == 1:
            return it.value, "forward"
    return it, "forward"


def loop_elem(lp):
    """(element target, index name | None, sequence expr, start) of a for loop, looking through enumerate"""
    it, t = lp.iter, lp.target
    if isinstance(it, ast.Call) and isinstance(it.func, ast.Name) and it.func.id == "enumerate" and it.args \
            and isinstance(t, (ast.Tuple, ast.List)) and len(t.elts) == 2 and isinstance(t.elts[0], ast.Name):
        start = it.args[1] if len(it.args) > 1 else next((k.value for k in it.keywords if k.arg == "start"), ast.Constant(value=0))
        return t.elts[1], t.elts[0].id, it.args[0], start
    return t, None, it, None


def is_range_len(e, seq_src):
    """`range(len(<seq_src>))`"""
    return isinstance(e, ast.Call) and au.call_tail(e) == "range" and len(e.args) == 1 and isinstance(e.args[0], ast.Call) \
        and au.call_tail(e.args[0]) == "len" and len(e.args[0].args) == 1 and au.src(e.args[0].args[0]) == seq_src


def is_empty_container(e):
    """'list' | 'set' | 'dict' | 'attr' for an expression that builds an empty container, else None"""
    if isinstance(e, ast.List) and not e.elts:
        return "list"
    if isinstance(e, ast.Dict) and not e.keys:
        return "dict"
    if isinstance(e, ast.Call) and not e.args and not e.keywords and isinstance(e.func, ast.Name) and e.func.id in ("list", "set", "dict"):
        return e.func.id
    if isinstance(e, ast.Call) and au.call_tail(e) == "Attribute":
        return "attr"
    if isinstance(e, ast.Call) and au.call_tail(e) == "defaultdict" and len(e.args) == 1 and au.src(e.args[0]) in ("bool", "int"):
        return "attr"
    return None


def straight_effect(stmts):
    """symbolic effect of a run of simple `Name = expr` assignments executed in order: name -> expr over the state before"""
    env = {}
    for s in stmts:
        if isinstance(s, ast.Assign) and len(s.targets) == 1 and isinstance(s.targets[0], ast.Name):
            env[s.targets[0].id] = sym.subst(s.value, env)
        elif isinstance(s, (ast.Expr, ast.Pass)):
            continue
        else:
            return None
    return env


class Abs(Abstractor):
    """Abstractor whose numeric terms fold constants (pi, tau, cos ...) and instance attributes under the default configuration"""

    def __init__(self, atom, repo=None, modname=None, cls_qual=None):
        super().__init__(atom)
        self.repo, self.modname, self.cls_qual = repo, modname, cls_qual

    def boolean(self, e):
        if not getattr(self, "_simplified", False):
            self._simplified = True
            try:
                e = simplify_bool(e)
                return super().boolean(e)
            finally:
                self._simplified = False
        return super().boolean(e)

    def term(self, e):
        e2 = e
        if self.repo is not None and self.cls_qual and any(isinstance(n, ast.Attribute) for n in ast.walk(e)):
            e2 = hj_scope.fold_defaults(e, self.repo, self.modname, self.cls_qual)
        v = hj_scope.fold(e2)
        if v is not None and not isinstance(v, bool):
            if isinstance(v, float):
                v = round(v, 9)
                if v == int(v) and abs(v) < 1e12:
                    v = int(v)
            return ast.Constant(value=v)
        return super().term(e)


def compare_under(code, spec_src, axiom_src=None):
    """order.compare of code against spec, both relaxed to True where the axiom (source over atom names) does not hold"""
    if axiom_src:
        ax = ast.parse(axiom_src, mode="eval").body
        code = ast.BoolOp(op=ast.Or(), values=[ast.UnaryOp(op=ast.Not(), operand=ax), code])
        spec_src = f"(not ({axiom_src})) or ({spec_src})"
    return compare(code, spec_src)


# ----------------------------------------------------------------- the border walk (C15-W1 / C17-W1)
BORD_MOD = "processing.border"


def _assigns_to(body, nm):
    return [s for s in au.stmts(body) if isinstance(s, ast.Assign) and len(s.targets) == 1 and is_name(s.targets[0], nm)]


def walk_facts(ctx):
    """Facts about `extract_border_cycle` read off its normal form (helpers inlined).  Raises Unrecognised."""
    cached = ctx.__dict__.get("_hj_walk")
    if cached is not None:
        if isinstance(cached, (Unrecognised, Contradiction)):
            raise cached
        return cached
    try:
        f = _walk_facts(ctx)
    except (Unrecognised, Contradiction) as u:
        ctx._hj_walk = u
        raise
    ctx._hj_walk = f
    return f


def _walk_facts(ctx):
    fn, S, nz = norm_fn(ctx, BORD_MOD, "extract_border_cycle")
    ps = au.params(fn)
    if len(ps) < 2:
        raise Unrecognised("extract_border_cycle: parameters (mesh, starting_point) not recognised")
    mesh, start = ps[:2]
    F = {"fn": fn, "S": S, "mesh": mesh, "start": start, "inlined": list(nz.inlined)}
    rets = [r for r in au.walk(fn) if isinstance(r, ast.Return) and isinstance(r.value, ast.Tuple) and len(r.value.elts) == 2
            and all(isinstance(x, ast.Name) for x in r.value.elts)]
    if len(rets) != 1:
        raise Unrecognised("extract_border_cycle: the exit returning (vertex list, edge list) is not recognised")
    vl, el = (x.id for x in rets[0].value.elts)
    F["vl"], F["el"], F["ret"] = vl, el, rets[0]

    def appends(nm, where):
        return [c for c in au.calls(where) if au.call_tail(c) == "append" and isinstance(c.func, ast.Attribute) and is_name(c.func.value, nm)
                and len(c.args) == 1]
    vrec = [c for c in appends(vl, fn) if loop_ancestors(c, stop=fn)]
    if len(vrec) != 1 or not isinstance(vrec[0].args[0], ast.Name):
        raise Unrecognised("extract_border_cycle: the statement that records the visited vertex inside the walk loop is not recognised")
    cur = vrec[0].args[0].id
    wl = loop_ancestors(vrec[0], stop=fn)[-1]
    F["cur"], F["wl"], F["vrec"] = cur, wl, vrec[0]
    erec = appends(el, wl)
    prev = None
    if len(erec) == 1:
        ec = S.canon(erec[0].args[0], erec[0])
        if isinstance(ec, ast.Call) and au.call_tail(ec) == "edge_id" and len(ec.args) == 2 and all(isinstance(a, ast.Name) for a in ec.args):
            ns = [a.id for a in ec.args]
            if cur in ns and len(set(ns)) == 2:
                prev = [n for n in ns if n != cur][0]
            elif ns == [cur, cur]:
                raise Contradiction("extract_border_cycle: the edge recorded at each step is edge_id(current, current)",
                                    "vertex list and edge list must describe the same closed walk: the edge of a step joins the previous and the current vertex", erec[0])
    if prev is None:
        raise Unrecognised("extract_border_cycle: the statement that records the edge (previous, current) inside the walk loop is not recognised")
    F["prev"], F["erec"] = prev, erec[0]
    # ---- the step
    sc, sp = _assigns_to(wl.body, cur), _assigns_to(wl.body, prev)
    if len(sc) != 1 or len(sp) != 1 or not in_same_block(sc[0], sp[0]):
        raise Unrecognised("extract_border_cycle: the step that advances (previous, current) is not recognised")
    blk, _ = au.enclosing_block(sc[0])
    i0, i1 = sorted((block_pos(sc[0]), block_pos(sp[0])))
    # the maximal run of plain assignments that ends with the step (a swap may go through a temporary assigned just before)
    j = i0
    while j > 0 and isinstance(blk[j - 1], ast.Assign) and len(blk[j - 1].targets) == 1 and isinstance(blk[j - 1].targets[0], ast.Name):
        j -= 1
    eff = straight_effect(blk[j:i1 + 1])
    if eff is None or cur not in eff or prev not in eff:
        raise Unrecognised("extract_border_cycle: the step that advances (previous, current) is not a plain assignment sequence")
    F["step"] = blk[i0]
    F["step_last"] = blk[i1]
    F["new_prev"], F["new_cur"] = eff[prev], eff[cur]
    loop_targets = {n for l in for_ancestors(blk[i0], stop=wl) for n in au.assigned_names(l.target)}
    if isinstance(eff[prev], ast.Name) and eff[prev].id != cur and (eff[prev].id in loop_targets or au.same(eff[prev], eff[cur])):
        raise Contradiction("extract_border_cycle: the step is not (previous, current) <- (current, chosen neighbour)",
                            "after the step the previous vertex must be the vertex just left, otherwise the walk may turn back", blk[i0])
    if not is_name(eff[prev], cur):
        raise Unrecognised("extract_border_cycle: the new value of the previous vertex is not recognised")
    if not isinstance(eff[cur], ast.Name):
        picked = unordered_pick(S, eff[cur], blk[i0])
        if picked is not None:
            raise Contradiction("extract_border_cycle: the next vertex is taken from an unordered set of candidates",
                                f"`{au.src(eff[cur])[:60]}` picks an arbitrary element of {picked}: a border vertex joined to another border vertex by an interior "
                                "edge (ear triangle, thin strip) has more than one candidate and the walk may leave the border along that chord; the next "
                                "vertex must be the first admissible one in the rotationally sorted neighbour list", blk[i0], kind="scan")
        raise Unrecognised("extract_border_cycle: the vertex the walk moves to is not a plain variable")
    y = eff[cur].id
    # ---- where does the chosen vertex come from
    lp = None
    for l in for_ancestors(F["step"], stop=wl):
        if y in au.assigned_names(l.target):
            lp = l
            break
    if lp is not None:
        F["layout"] = "in-loop"
        F["hit"] = F["step"]
        F["guard_ok"] = True
        blk2, _ = au.enclosing_block(F["step_last"])
        F["break"] = any(isinstance(s, ast.Break) for s in blk2[block_pos(F["step_last"]) + 1:])
        F["hit_block_stop"] = lp
    else:
        # search loop + result variable:  y (or a copy chain) is assigned a candidate under the search condition, None otherwise
        aliases, hits, nones = {y}, [], []
        todo = [y]
        while todo:
            nm = todo.pop()
            for s in _assigns_to(wl.body, nm):
                v = s.value
                if isinstance(v, ast.Constant) and v.value is None:
                    nones.append(s)
                elif isinstance(v, ast.Name):
                    l2 = next((l for l in for_ancestors(s, stop=wl) if v.id in au.assigned_names(l.target)), None)
                    if l2 is not None:
                        hits.append((s, l2))
                    elif v.id not in aliases:
                        aliases.add(v.id)
                        todo.append(v.id)
                else:
                    raise Unrecognised("extract_border_cycle: the origin of the vertex the walk moves to is not recognised")
        if len(hits) != 1:
            raise Unrecognised("extract_border_cycle: the search for the next border vertex is not recognised")
        hit, lp = hits[0]
        F["layout"] = "search-result"
        F["hit"] = hit
        blk2, _ = au.enclosing_block(hit)
        F["break"] = any(isinstance(s, ast.Break) for s in blk2[block_pos(hit) + 1:])
        # guard of the step: `alias is not None`
        guard = None
        for t, pol, _at in path_condition(F["step"], stop=wl):
            t2, pol2 = au.strip_not(t, pol)
            if isinstance(t2, ast.Compare) and len(t2.ops) == 1 and isinstance(t2.left, ast.Name) and t2.left.id in aliases \
                    and isinstance(t2.comparators[0], ast.Constant) and t2.comparators[0].value is None:
                if (isinstance(t2.ops[0], ast.IsNot) and pol2) or (isinstance(t2.ops[0], ast.Is) and not pol2):
                    guard = "is-not-none"
            elif isinstance(t2, ast.Name) and t2.id in aliases and pol2:
                guard = guard or "truthy"
        F["guard"] = guard
        # the step must come after the search loop, in the walk loop body
        top_l, top_s = top_stmt_in(wl.body, lp), top_stmt_in(wl.body, F["step"])
        if top_l is None or top_s is None or not block_pos(top_l) < block_pos(top_s):
            raise Unrecognised("extract_border_cycle: the step does not follow the search of the next vertex")
        for s in nones:
            ok = any(s is x for x in lp.orelse) or (top_stmt_in(wl.body, s) is not None and block_pos(top_stmt_in(wl.body, s)) < block_pos(top_l))
            if not ok:
                raise Unrecognised("extract_border_cycle: the 'no neighbour found' value of the search is assigned at an unexpected place")
    F["lp"] = lp
    F["cand"] = y if F["layout"] == "in-loop" else F["hit"].value.id
    seq, direction = strip_reversed(lp.iter)
    seqc = S.canon(seq, lp)
    seq2, d2 = strip_reversed(seqc)
    if d2 == "backward":
        direction = "backward" if direction == "forward" else "forward"
    F["scan"] = direction
    F["domain"] = seq2
    return F


def is_set_expr(S, e, at, depth=0):
    """a short description when e denotes a set (hash order), else None"""
    if isinstance(e, ast.Name) and depth < 4:
        v = S.value(e.id, at)
        return is_set_expr(S, v, at, depth + 1) if v is not None else None
    if isinstance(e, (ast.Set, ast.SetComp)):
        return "a set display"
    if isinstance(e, ast.Call):
        t = au.call_tail(e)
        if t in ("set", "frozenset"):
            return f"{t}(...)"
        if t in ("intersection", "difference", "union", "symmetric_difference") and isinstance(e.func, ast.Attribute):
            return f"a set .{t}(...)"
    if isinstance(e, ast.BinOp) and isinstance(e.op, (ast.BitAnd, ast.BitOr, ast.Sub, ast.BitXor)) and depth < 4:
        return is_set_expr(S, e.left, at, depth + 1) or is_set_expr(S, e.right, at, depth + 1)
    return None


def unordered_pick(S, e, at):
    """description of the set when e picks one element of a set: s.pop(), next(iter(s)), list(s)[k], min/max are ordered (None)"""
    if isinstance(e, ast.Call) and au.call_tail(e) == "pop" and isinstance(e.func, ast.Attribute) and not e.args:
        return is_set_expr(S, e.func.value, at)
    if isinstance(e, ast.Call) and au.call_tail(e) == "next" and e.args and isinstance(e.args[0], ast.Call) and au.call_tail(e.args[0]) == "iter" and e.args[0].args:
        return is_set_expr(S, e.args[0].args[0], at)
    if isinstance(e, ast.Subscript) and isinstance(e.value, ast.Call) and au.call_tail(e.value) in ("list", "tuple") and e.value.args:
        return is_set_expr(S, e.value.args[0], at)
    return None


def walk_first(F):
    """'head' | 'tail' | 'other' | None : which neighbour of the start the walk leaves through"""
    S, wl, cur, start = F["S"], F["wl"], F["cur"], F["start"]
    c0 = S.canon(ast.Name(id=cur, ctx=ast.Load()), wl, keep=(start,))
    if isinstance(c0, ast.Subscript) and isinstance(c0.value, ast.Call) and au.call_tail(c0.value) == "vertex_to_vertices" \
            and len(c0.value.args) == 1 and is_name(c0.value.args[0], start):
        k = au.const(c0.slice)
        return {0: "head", -1: "tail"}.get(k, "other") if isinstance(k, int) else "other"
    return None


def check_walk_orientation(ctx, rule, modname=None, fn=None):
    fn0 = ctx.repo.func(BORD_MOD, "extract_border_cycle")
    try:
        F = walk_facts(ctx)
    except Contradiction as c:
        if c.kind == "scan":
            ctx.fail(rule, ctx.site(BORD_MOD, fn0, c.node) if c.node is not None else ctx.site(BORD_MOD, fn0), c.construct, c.what)
            return
        ctx.undecided(rule, ctx.site(BORD_MOD, fn0), "extract_border_cycle: skeleton of the walk broken (see the skeleton clause)",
                      "the orientation of the walk cannot be established: " + c.construct)
        return
    except Unrecognised as u:
        ctx.undecided(rule, ctx.site(BORD_MOD, fn0), u.construct, "the orientation of the walk cannot be established" + (": " + u.what if u.what else ""))
        return
    site = ctx.site(BORD_MOD, fn0, F["lp"])
    first = walk_first(F)
    dom = F["domain"]
    dom_ok = isinstance(dom, ast.Call) and au.call_tail(dom) == "vertex_to_vertices" and len(dom.args) == 1 and is_name(dom.args[0], F["cur"])
    if first is None or not dom_ok:
        ctx.undecided(rule, site, "extract_border_cycle: first step `vertex_to_vertices(start)[k]` / scan of vertex_to_vertices(current) not recognised",
                      "the orientation of the walk cannot be established")
        return
    ok = (first, F["scan"]) in (("head", "forward"), ("tail", "backward"))
    if first == "other":
        ctx.fail(rule, site, "extract_border_cycle: the walk leaves the start through a neighbour that is neither the first nor the last of the sorted list",
                 "only the first and the last entry of the sorted neighbour list of a border vertex are joined to it by a border edge")
        return
    ctx.check(ok, rule, site, "extract_border_cycle: the first step and the scan of the neighbours do not walk the border in one orientation",
              f"first step takes the {first} of the sorted neighbour list, the choice loop scans it {F['scan']}: the sorted neighbours of a "
              "border vertex start and end with its two border neighbours, interior chords to other border vertices lie in between.  Leaving "
              "through the head, the vertex just left is the tail of the next list and the next border vertex its head (first match); leaving "
              "through the tail while scanning forward meets the chords first: the walk follows an interior edge",
              note=f"walk leaves through the {first} and scans {F['scan']}")
    ctx.check(bool(F["break"]), rule, site, "extract_border_cycle: the choice loop does not stop at the first admissible neighbour",
              "only the first admissible neighbour in scan order is guaranteed to be joined by a border edge", note="first match wins")


def check_sort_contract(ctx, rule, modname="mesh.datatypes.surface", qual="SurfaceMesh._Connectivity._sort_vertex_neighborhoods"):
    """the clause of the sorting contract the walk relies on: neighbours whose half edge (A, v) has no corner sort first, ascending.
    Read by role: the `.sort(key=K...)` of a neighbour list of self._adjV2V, K filled by `K[v] = <table>.get(<corner of (A, v)>, D)`."""
    fn0 = ctx.repo.func(modname, qual)
    site = ctx.site(modname, fn0)
    fn, S, nz = norm_fn(ctx, modname, qual, unroll=False)
    sorts = []
    for c in au.calls(fn):
        if au.call_tail(c) == "sort" and isinstance(c.func, ast.Attribute):
            recv = S.canon(c.func.value, c)
            if isinstance(recv, ast.Subscript) and au.is_self_attr(recv.value, "_adjV2V"):
                sorts.append(c)
    if len(sorts) != 1:
        ctx.undecided(rule, site, "_sort_vertex_neighborhoods: the sort of the neighbour list self._adjV2V[A] is not recognised", "")
        return
    c = sorts[0]
    kws = {k.arg: k.value for k in c.keywords}
    key = kws.get("key")
    rev = kws.get("reverse")
    if rev is not None and au.const(rev) is not False:
        if au.const(rev) is True:
            ctx.fail(rule, site, "_sort_vertex_neighborhoods: the neighbour list is sorted in descending order (reverse=True)",
                     "extract_border_cycle relies on the sorted neighbour list of a border vertex starting with the corner-less border neighbour")
        else:
            ctx.undecided(rule, site, "_sort_vertex_neighborhoods: `reverse` argument of the neighbour sort is not a constant", "")
        return
    table = None
    if isinstance(key, ast.Lambda) and isinstance(key.body, ast.Subscript) and isinstance(key.body.value, ast.Name) \
            and len(key.args.args) == 1 and is_name(key.body.slice, key.args.args[0].arg):
        table = key.body.value.id
    elif isinstance(key, ast.Attribute) and key.attr in ("__getitem__", "get") and isinstance(key.value, ast.Name):
        table = key.value.id
    if table is None:
        ctx.undecided(rule, site, "_sort_vertex_neighborhoods: the sort key of the neighbour list is not a lookup in a per-neighbour table", "")
        return
    fills = [s for s in au.stmts(fn.body) if isinstance(s, ast.Assign) and len(s.targets) == 1 and isinstance(s.targets[0], ast.Subscript)
             and is_name(s.targets[0].value, table)]
    gets = []
    plain = []          # fills with a plain value (the corner-less case answered by a test instead of the default of .get)
    for s in fills:
        v = s.value
        if isinstance(v, ast.Call) and au.call_tail(v) == "get" and len(v.args) == 2:
            gets.append(S.canon(v.args[1], s))
        elif not any(isinstance(n, (ast.Call, ast.Subscript)) for n in ast.walk(S.canon(v, s)) if not (isinstance(n, ast.Call) and au.call_tail(n) == "float")):
            plain.append(S.canon(v, s))
        else:
            gets = None
            break
    if not gets:
        ctx.undecided(rule, site, "_sort_vertex_neighborhoods: the sort index of a neighbour is not `<corner table>.get(<corner>, default)`", "")
        return
    verdicts = []
    for d in gets:
        neg = False
        e = d
        while isinstance(e, ast.UnaryOp) and isinstance(e.op, (ast.USub, ast.UAdd)):
            neg = (not neg) if isinstance(e.op, ast.USub) else neg
            e = e.operand
        is_inf = (isinstance(e, ast.Call) and au.call_tail(e) == "float" and e.args and str(au.const(e.args[0])).lower().lstrip("+") in ("inf", "infinity")) \
            or au.src(e) in ("math.inf", "np.inf", "numpy.inf", "inf", "np.Inf", "np.infty")
        neg_txt = isinstance(e, ast.Call) and au.call_tail(e) == "float" and e.args and str(au.const(e.args[0])).lower() in ("-inf", "-infinity")
        if (is_inf and neg) or (neg_txt and not neg):
            verdicts.append("ok")
        elif is_inf or neg_txt or isinstance(au.const(e), (int, float)):
            verdicts.append("bad")
        else:
            verdicts.append("?")
    for d in plain:
        # a constant stored under a test: only -inf is known to be the corner-less value; anything else is not judged
        e, neg = d, False
        while isinstance(e, ast.UnaryOp) and isinstance(e.op, (ast.USub, ast.UAdd)):
            neg = (not neg) if isinstance(e.op, ast.USub) else neg
            e = e.operand
        inf = (isinstance(e, ast.Call) and au.call_tail(e) == "float" and e.args and str(au.const(e.args[0])).lower().lstrip("+") in ("inf", "infinity")) \
            or au.src(e) in ("math.inf", "np.inf", "numpy.inf", "inf", "np.Inf", "np.infty")
        if not (inf and neg):
            verdicts.append("?")
    if "bad" in verdicts:
        ctx.fail(rule, site, "_sort_vertex_neighborhoods: the neighbour without a half-edge corner is not sorted first (key -inf, ascending)",
                 "extract_border_cycle relies on the sorted neighbour list of a border vertex starting with one border neighbour and ending with the other")
    elif "?" in verdicts:
        ctx.undecided(rule, site, "_sort_vertex_neighborhoods: default sort index of the corner-less neighbour not recognised", "")
    else:
        ctx.ok(rule, site, "sorting contract: corner-less border neighbour first, ascending")


def inner_conds(S, node, fn, keep=()):
    """Scope.conds without the early exits of the top-level block of the function (input validation answered up front)"""
    out = []
    for t, pol, at in path_condition(node, stop=fn):
        if isinstance(at, ast.If) and any(at is z for z in fn.body) and not any(at is a for a in au.ancestors(node)):
            leaving = at.body if hj_norm.leaves(at.body) else at.orelse
            last = leaving[-1] if leaving else None
            trivial = isinstance(last, ast.Raise) or (len(leaving) <= 2 and isinstance(last, ast.Return) and not any(
                isinstance(x, (ast.Assign, ast.AugAssign, ast.For, ast.While)) for x in leaving))
            if trivial:
                continue
        out.append((S.canon(t, at, keep), pol))
    return out


def alias_canon(S, expr, at):
    """expr with only those local names replaced that are plain aliases of an attribute chain / another name
    (`fv = self.feat.feature_vertices`): containers built in the function keep their names (their identity matters)"""
    keep = []
    for n in {x.id for x in ast.walk(expr) if isinstance(x, ast.Name)}:
        v = S.value(n, at)
        if v is None or au.chain(v) is None:
            keep.append(n)
    return S.canon(expr, at, keep=tuple(keep))


def alias_conds(S, node, stop=None):
    return [(alias_canon(S, t, at), pol) for t, pol, at in path_condition(node, stop=stop)]


def guarded(ctx, rule, modname, qual, f, *args):
    """run one rule section; an unexpected exception inside the recogniser (a shape of code it was not written for) makes that
    section `undecided` instead of aborting the whole check (the other sections still report)"""
    from ..core import AnalysisError, Site
    try:
        return f(ctx, *args)
    except AnalysisError as e:
        # a vanished *private* anchor (renamed / merged helper) leaves this section undecided; a vanished public one stays an analysis error
        import re
        m = re.search(r"anchor function \S+::(\S+) not found", str(e))
        if m and m.group(1).split(".")[-1].startswith("_") and not m.group(1).split(".")[-1].startswith("__"):
            ctx.undecided(rule, Site("mouette." + modname, qual, 0), f"private helper {m.group(1)} no longer exists", "the code it held has moved: the clause is not decided")
            return None
        raise
    except RecursionError:
        ctx.undecided(rule, Site("mouette." + modname, qual, 0), f"{qual}: the recogniser recursed too deeply on this code", "")
    except Exception as ex:     # noqa: BLE001
        ctx.undecided(rule, Site("mouette." + modname, qual, 0), f"{qual}: the recogniser does not handle this code", f"{type(ex).__name__}: {str(ex)[:120]}")
    return None


# ----------------------------------------------------------------- boolean simplification of canonical conditions
def _const_bool(e):
    return e.value if isinstance(e, ast.Constant) and isinstance(e.value, bool) else None


def simplify_bool(e):
    """Push comparisons / `is None` tests through conditional expressions, decide tests on literal None, fold and / or / not with
    constants.  The result is equivalent to `e` as a truth value (a sub-test that is never evaluated because a constant decides the
    conjunction / disjunction before it is dropped)."""
    T, F = ast.Constant(value=True), ast.Constant(value=False)

    def assume(x, t, val):
        """x with every occurrence of the test t (or its negation) replaced by the constant it has"""
        key = au.norm(t)
        neg_key = au.norm(t.operand) if isinstance(t, ast.UnaryOp) and isinstance(t.op, ast.Not) else None

        class A(ast.NodeTransformer):
            def visit(self, node):
                if isinstance(node, ast.expr):
                    k = au.norm(node)
                    if k == key:
                        return ast.Constant(value=val)
                    if neg_key is not None and k == neg_key:
                        return ast.Constant(value=not val)
                return super().visit(node)
        return A().visit(sym.clone(x))

    def ite(t, a, b):
        ct = _const_bool(t)
        if ct is not None:
            return a if ct else b
        if _const_bool(a) is None:
            a = rec(assume(a, t, True))
        if _const_bool(b) is None:
            b = rec(assume(b, t, False))
        ca, cb = _const_bool(a), _const_bool(b)
        if ca is not None and cb is not None:
            if ca == cb:
                return a
            return t if ca else neg(t)
        return disj([conj([t, a]), conj([neg(t), b])])

    def neg(x):
        c = _const_bool(x)
        if c is not None:
            return F if c else T
        if isinstance(x, ast.UnaryOp) and isinstance(x.op, ast.Not):
            return x.operand
        return ast.UnaryOp(op=ast.Not(), operand=x)

    def conj(vs):
        out = []
        for v in vs:
            c = _const_bool(v)
            if c is False:
                return F
            if c is None:
                out.append(v)
        return T if not out else (out[0] if len(out) == 1 else ast.BoolOp(op=ast.And(), values=out))

    def disj(vs):
        out = []
        for v in vs:
            c = _const_bool(v)
            if c is True:
                return T
            if c is None:
                out.append(v)
        return F if not out else (out[0] if len(out) == 1 else ast.BoolOp(op=ast.Or(), values=out))

    def is_literal(v):
        return not isinstance(v, (ast.BoolOp, ast.IfExp, ast.Constant)) and not (isinstance(v, ast.UnaryOp) and isinstance(v.operand, (ast.BoolOp, ast.IfExp)))

    def rec(x, _depth=0):
        if isinstance(x, ast.BoolOp):
            vs = [rec(v) for v in x.values]
            if _depth < 3:
                # a literal operand of a conjunction holds inside the other operands (its negation inside those of a disjunction)
                is_and = isinstance(x.op, ast.And)
                if len(vs) > 1 and any(not is_literal(v) for v in vs):
                    new = []
                    for i, v in enumerate(vs):
                        if not is_literal(v) and _const_bool(v) is None:
                            for j, l in enumerate(vs):
                                if j != i and _const_bool(l) is None:
                                    v = assume(v, l, is_and)
                            v = rec(v, _depth + 1)
                        new.append(v)
                    vs = new
            return conj(vs) if isinstance(x.op, ast.And) else disj(vs)
        if isinstance(x, ast.UnaryOp) and isinstance(x.op, ast.Not):
            return neg(rec(x.operand))
        if isinstance(x, ast.IfExp):
            return ite(rec(x.test), rec(x.body), rec(x.orelse))
        if isinstance(x, ast.Compare) and len(x.ops) == 1:
            l, r = x.left, x.comparators[0]
            if isinstance(l, ast.IfExp):
                return ite(rec(l.test), rec(ast.Compare(left=l.body, ops=x.ops, comparators=[r])), rec(ast.Compare(left=l.orelse, ops=x.ops, comparators=[r])))
            if isinstance(r, ast.IfExp):
                return ite(rec(r.test), rec(ast.Compare(left=l, ops=x.ops, comparators=[r.body])), rec(ast.Compare(left=l, ops=x.ops, comparators=[r.orelse])))
            if isinstance(x.ops[0], (ast.Is, ast.IsNot)) and isinstance(r, ast.Constant) and r.value is None:
                val = None
                if isinstance(l, ast.Constant):
                    val = l.value is None
                elif isinstance(l, (ast.Tuple, ast.List, ast.Dict, ast.Lambda, ast.JoinedStr)) or (isinstance(l, ast.Call) and au.call_tail(l) in ("dot", "len", "abs", "float", "int")):
                    val = False
                if val is not None:
                    return T if (val == isinstance(x.ops[0], ast.Is)) else F
        return x
    return rec(e)
