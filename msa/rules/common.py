"""Rule helpers shared by several properties (R-PAIR, key normalisation, partitions...)."""
from __future__ import annotations
import ast
from .. import au, sym


def is_keyify(e):
    return isinstance(e, ast.Call) and au.call_tail(e) == "keyify"


def keyify_agreement(ctx, rule, classes, min_dicts):
    """A dict field written under keyify(...) keys must only be read under keyify(...) keys."""
    repo = ctx.repo
    n_dicts = 0
    for modname, qual in classes:
        cls = repo.cls(modname, qual)
        fns = [st for st in cls.body if isinstance(st, ast.FunctionDef)]
        keyed = {}
        for fn in fns:
            b = sym.Bindings(fn)
            for st in au.stmts(fn.body):
                if isinstance(st, ast.Assign) and isinstance(st.targets[0], ast.Subscript) \
                        and au.is_self_attr(st.targets[0].value):
                    k = b.resolve(st.targets[0].slice, at=st)
                    if is_keyify(k):
                        keyed.setdefault(st.targets[0].value.attr, []).append((fn, st))
        for field, ws in keyed.items():
            n_dicts += 1
            # all writers keyified?
            for fn in fns:
                b = sym.Bindings(fn)
                for n in au.walk(fn):
                    key = None
                    if isinstance(n, ast.Subscript) and au.is_self_attr(n.value, field):
                        key = n.slice
                    elif isinstance(n, ast.Call) and au.call_tail(n) in ("get", "pop", "setdefault") \
                            and isinstance(n.func, ast.Attribute) and au.is_self_attr(n.func.value, field) and n.args:
                        key = n.args[0]
                    elif isinstance(n, ast.Compare) and len(n.ops) == 1 and isinstance(n.ops[0], (ast.In, ast.NotIn)) \
                            and au.is_self_attr(n.comparators[0], field):
                        key = n.left
                    if key is None:
                        continue
                    k = b.resolve(key, at=n)
                    ctx.check(is_keyify(k), rule, ctx.site(modname, fn, n),
                              f"self.{field} is accessed with un-normalised key `{au.src(key)}`",
                              f"self.{field} is filled under keyify(...) keys (sorted tuples); a raw key makes the answer "
                              f"depend on the order of the vertices given by the caller",
                              note=f"{field} access under keyify key")
    ctx.require_count(rule + " keyified dictionaries", n_dicts, min_dicts)


def check_partition(ctx, rule, modname, fn, field_true, field_false, pred_tail, true_side=None, elem=None):
    """`for x in ...: if pred(x): self.A.append(x) else: self.B.append(x)` - every element lands in
    exactly one of the two lists, decided by one predicate."""
    site = ctx.site(modname, fn)
    found = False
    for st in au.stmts(fn.body):
        if not isinstance(st, ast.If) or not st.orelse:
            continue
        t = st.test
        neg = False
        if isinstance(t, ast.UnaryOp) and isinstance(t.op, ast.Not):
            t, neg = t.operand, True
        tail = au.call_tail(t) if isinstance(t, ast.Call) else (
            t.value.attr if isinstance(t, ast.Subscript) and isinstance(t.value, ast.Attribute) else None)
        if tail != pred_tail:
            continue

        def appended(body):
            out = []
            for s in body:
                for c in au.calls(s):
                    if au.call_tail(c) == "append" and isinstance(c.func, ast.Attribute) and au.is_self_attr(c.func.value):
                        out.append((c.func.value.attr, au.src(c.args[0]) if c.args else None))
            return out
        a, b = appended(st.body), appended(st.orelse)
        if neg:
            a, b = b, a
        found = True
        ok = len(a) == 1 and len(b) == 1 and a[0][0] == field_true and b[0][0] == field_false and a[0][1] == b[0][1]
        ctx.check(ok, rule, ctx.site(modname, fn, st),
                  f"{fn.name}: elements satisfying {pred_tail} go to {a}, the others to {b} "
                  f"(expected self.{field_true} / self.{field_false}, same element)",
                  "the two lists must partition the elements by the border predicate")
        # the If must be the only statement kind deciding, directly in a loop over all ids (no extra guard)
        loops = [x for x in au.ancestors(st) if isinstance(x, ast.For)]
        ok2 = bool(loops) and not au.guards(st, stop=loops[0])
        ctx.check(ok2, rule, ctx.site(modname, fn, st),
                  f"{fn.name}: the partition test is itself guarded - some elements land in neither list",
                  "every element must be classified")
    if not found:
        ctx.fail(rule, site, f"{fn.name}: no if/else on {pred_tail} filling self.{field_true} / self.{field_false}",
                 "the two lists must be an if/else partition on one predicate")
    # both lists reset at the top
    resets = {t.attr for st in fn.body if isinstance(st, (ast.Assign, ast.AnnAssign))
              for t in au.assign_targets(st) if au.is_self_attr(t)
              and isinstance(st.value, (ast.List, ast.Call))}
    ctx.check({field_true, field_false} <= resets, rule, site,
              f"{fn.name}: {sorted({field_true, field_false} - resets)} not re-initialised before being filled",
              "a recomputation must not append to a stale list")


def block_partner(stmt_a, pred_b):
    """Is there a statement satisfying pred_b in the same block as stmt_a?"""
    blk, _ = au.enclosing_block(stmt_a)
    if not blk:
        return None
    for s in blk:
        if s is not stmt_a and pred_b(s):
            return s
    return None


def _base_name(e):
    """`self.m2b_vertex` -> 'm2b_vertex', `map_m2b` -> 'map_m2b'."""
    if isinstance(e, ast.Attribute):
        return e.attr
    if isinstance(e, ast.Name):
        return e.id
    return None


def subscript_stores(fn):
    """[(stmt, base_name, key_expr, value_expr)] for `X[k] = v` statements of fn."""
    out = []
    for st in au.stmts(fn.body):
        if isinstance(st, ast.Assign) and len(st.targets) == 1 and isinstance(st.targets[0], ast.Subscript):
            t = st.targets[0]
            b = _base_name(t.value)
            if b:
                out.append((st, b, t.slice, st.value))
    return out


def inverse_map_pairs(ctx, rule, modname, fn, pairs, min_pairs=1):
    """For each (fwd, bwd) name pair: every store fwd[k] = v has bwd[v] = k in the same block and
    vice versa - the two dictionaries are mutually inverse by construction."""
    stores = subscript_stores(fn)
    n = 0
    for fwd, bwd in pairs:
        mine = [s for s in stores if s[1] in (fwd, bwd)]
        for st, base, k, v in mine:
            other = bwd if base == fwd else fwd
            blk, _ = au.enclosing_block(st)
            partner = [s for s in mine if s[1] == other and au.enclosing_block(s[0])[0] is blk
                       and au.same(s[2], v) and au.same(s[3], k)]
            n += 1
            ctx.check(bool(partner), rule, ctx.site(modname, fn, st),
                      f"`{au.src(st)}` has no inverse store `{other}[{au.src(v)}] = {au.src(k)}` in the same block",
                      f"{fwd} and {bwd} must be mutually inverse index maps",
                      note=f"{fwd}/{bwd} stored in lock-step")
    if n < 2 * min_pairs:
        ctx.fail(rule, ctx.site(modname, fn), f"index maps {pairs} are no longer filled by paired stores in {fn.name}",
                 "the maps to and from the boundary must be built together")
    return n


def relation_pairs(ctx, rule, modname, fn, rel_a, rel_b, min_sites=1):
    """`A[x].append|add(y)` must come with `B[y].append|add(x)` in the same block (inverse relations)."""
    ins = []
    for c in au.calls(fn):
        if au.call_tail(c) in ("append", "add") and isinstance(c.func, ast.Attribute) \
                and isinstance(c.func.value, ast.Subscript) and len(c.args) == 1:
            b = _base_name(c.func.value.value)
            if b in (rel_a, rel_b):
                st = au.enclosing_stmt(c)
                ins.append((st, b, c.func.value.slice, c.args[0], c))
    for st, b, k, v, c in ins:
        other = rel_b if b == rel_a else rel_a
        blk, _ = au.enclosing_block(st)
        partner = [s for s in ins if s[1] == other and au.enclosing_block(s[0])[0] is blk and au.same(s[2], v) and au.same(s[3], k)]
        ctx.check(bool(partner), rule, ctx.site(modname, fn, c),
                  f"`{au.src(c)}` has no inverse insertion `{other}[{au.src(v)}] <- {au.src(k)}` in the same block",
                  f"{rel_a} and {rel_b} are inverse relations: y in A[x] iff x in B[y]",
                  note=f"{rel_a}/{rel_b} inserted in lock-step")
    if len(ins) < 2 * min_sites:
        ctx.fail(rule, ctx.site(modname, fn), f"inverse relations {rel_a}/{rel_b} are no longer filled by paired insertions",
                 "the two adjacency tables must be built together")
    return len(ins)
