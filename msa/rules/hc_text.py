"""C04 rules of the line-oriented text formats (medit, obj, off, tet, xyz) on top of the writer model (hc_emit: the tree of text an
exporter emits, row blocks with their tokens) and the reader model (hc_read: the rows an importer stores).  Both sides are read
from *flattened* functions (hc_flat), so the decomposition into helpers does not matter.

Protocol: a rule reports a violation only when both models are understood at the place it is about and contradict the rule; when
a construct is not understood the rule reports `undecided`."""
from __future__ import annotations
import ast, itertools
from .. import au, sym
from . import codec_c04 as cc
from . import hc_flat, hc_emit as em, hc_read as rd

IOMOD = {"medit": "mesh.io.medit", "obj": "mesh.io.obj", "off": "mesh.io.off", "tet": "mesh.io.tet",
         "xyz": "mesh.io.xyz", "geogram": "mesh.io.geogram_ascii"}
EXPORT = {"medit": "export_medit", "obj": "export_obj", "off": "export_off", "tet": "export_tet",
          "xyz": "export_xyz", "geogram": "export_geogram_ascii"}
IMPORT = {"medit": ["import_medit"], "obj": ["import_obj", "parse_obj_data"], "off": ["import_off", "parse_off_data"],
          "tet": ["import_tet", "parse_tet_data"], "xyz": ["import_xyz"], "geogram": ["import_geogram_ascii"]}
BASE = {"obj": 1, "medit": 1, "off": 0, "tet": 0, "geogram": 0}
INDEX_KINDS = ("edges", "faces", "cells")
ORDER_DESTROYING = rd.ORDER_DESTROYING
FLOAT_OK, NUM_CONV = rd.FLOAT_OK, rd.NUM_CONV
IDENTITY_CONV = {"float", "float64", "double", "float_", "longdouble", "asarray", "array"}
PRECISION_KW = {"precision", "digits", "decimals", "ndigits", "fmt", "format", "floatfmt", "fractional", "max_digits"}


class Codec:
    """flattened exporter / importer of one format and their models"""

    def __init__(self, ctx, fmt):
        repo = ctx.repo
        self.ctx, self.repo, self.fmt, self.mod = ctx, repo, fmt, IOMOD[fmt]
        w = repo.func(self.mod, EXPORT[fmt])
        r = repo.func(self.mod, IMPORT[fmt][0])
        self.wq = EXPORT[fmt]
        self.rq = next((q for q in reversed(IMPORT[fmt]) if repo.has_func(self.mod, q)), IMPORT[fmt][0])
        for q in IMPORT[fmt]:
            if repo.has_func(self.mod, q):
                ctx.site(self.mod, repo.func(self.mod, q))
        self.wfn = hc_flat.specialise(repo, self.mod, w, 2)
        self.rfn = hc_flat.specialise(repo, self.mod, r, 1)
        self.prov, self.b, self.tree, self.blocks, self.problems = em.row_blocks(fmt, self.wfn)
        self.rb, self.rblocks, self.bulk = rd.reader_blocks(fmt, self.rfn)
        self.unknown = em.unknowns(self.tree)
        self.unclassified = unclassified_reps(self)
        if fmt != "geogram":
            for blk in self.blocks:
                if blk.fields == 0 and not blk.unknown:
                    blk.unknown.append(blk.rep.node)          # no element of the row recognised among the tokens

    def ws(self, node=None):
        return self.ctx.site(self.mod, self.wq, node)

    def rs(self, node=None):
        return self.ctx.site(self.mod, self.rq, node)

    def writer_understood(self, kind=None):
        """nothing unread in the emission tree, and no repetition that could write rows (of `kind`) unseen by the model"""
        if self.unknown or self.problems:
            return False
        for r in self.unclassified:
            tags = rep_tags(r)
            if tags and kind is not None and all(t in self.foreign_tags(kind) for t in tags):
                continue
            return False
        return True

    def foreign_tags(self, kind):
        """line tags the importer knows and does not store as `kind`"""
        out = set()
        for n_ in au.walk(self.rfn):
            if isinstance(n_, ast.Compare) and len(n_.ops) == 1 and isinstance(n_.ops[0], ast.Eq):
                for x in (n_.left, n_.comparators[0]):
                    if isinstance(x, ast.Constant) and isinstance(x.value, str):
                        out.add(x.value)
        for rb in self.rblocks:
            if rb.kind == kind:
                for expr, const, pol, test in rb.keys:
                    if pol and const in out:
                        out.discard(const)
        return out

    def reader_understood(self, kind=None):
        return not [k for k, n in self.bulk if kind is None or k == kind]


def unclassified_reps(cx):
    """repetitions of the emission tree that are neither a recognised row loop (nor inside one) nor a loop over the attributes
    of a container: they may write rows in a way the model does not see"""
    rows = {id(b_.rep) for b_ in cx.blocks}
    out = []

    def rec(items, inside):
        for x in items:
            if isinstance(x, em.Rep):
                mine = inside or id(x) in rows
                it = x.iter
                if isinstance(it, ast.Call) and isinstance(it.func, ast.Attribute) and it.func.attr in ("keys", "items", "values"):
                    it = it.func.value
                attrs = isinstance(it, ast.Attribute) and it.attr == "attributes"
                if not mine and not attrs:
                    out.append(x)
                rec(x.body, mine)
            elif isinstance(x, em.Alt):
                rec(x.a, inside)
                rec(x.b, inside)
    rec(cx.tree, False)
    return out


def rep_tags(rep):
    """literal first tokens of the lines a repetition writes (None when a line does not start with a literal token)"""
    tags = set()
    for ln in all_lines(rep.body):
        if not ln:
            continue
        lit = ln[0].literal() if isinstance(ln[0], em.Token) else None
        if lit is None:
            return None
        tags.add(lit)
    return tags


def spec_text(lf):
    return (lf.spec if lf.how == "percent" else ("!" + lf.conv if lf.conv else "") + ":" + str(lf.spec))


# =========================================================================== rules shared by the formats
def general(cx):
    """the models must be readable at all"""
    ctx, fmt = cx.ctx, cx.fmt
    if cx.unknown or cx.problems:
        what = "; ".join(sorted({(u.why or "not modelled") if isinstance(u, em.Unk) else "loop left early" for u in cx.unknown} |
                                {p[1] for p in cx.problems}))
        ctx.undecided("C04-E1", cx.ws(), f"{fmt}: part of the text the exporter writes is built in a way the writer model does not read",
                      what)
    if not cx.blocks:
        ctx.undecided("C04-E1", cx.ws(), f"{fmt}: no loop writing the rows of a mesh container recognised in the exporter", "")
    if not cx.rblocks:
        ctx.undecided("C04-E1", cx.rs(), f"{fmt}: no statement storing a row into a container of the loaded mesh recognised in the importer", "")
    for kind, node in cx.bulk:
        ctx.undecided("C04-E1", cx.rs(node), f"{fmt}: {kind} are stored in bulk, not row by row", "the row model of the reader does not apply")
    for blk in cx.blocks:
        if blk.kind in cc.KINDS and blk.kind not in VOCAB.get(fmt, cc.KINDS) and not blk.outer_reps:
            ctx.fail("C04-E1", cx.ws(blk.write), f"{fmt}: rows of mesh.{blk.kind} are written, an element kind the {fmt} format cannot express",
                     f"the {fmt} format describes {' / '.join(VOCAB[fmt])} only: to any reader of the format these rows are "
                     f"{' or '.join(k for k in VOCAB[fmt] if k != 'vertices') or 'points'}, not {blk.kind}; an element kind a format cannot "
                     f"express must be absent from the file, never turned into something else")
    for blk in cx.blocks:
        if blk.fields == 0 and not blk.unknown and fmt != "geogram":
            blk.unknown.append(blk.rep.node)          # no element of the row recognised among the tokens
        if blk.unknown:
            ctx.undecided("C04-E1", cx.ws(blk.write), f"{fmt}: a {blk.kind} row is written with tokens the writer model does not read", "")
    for rb in cx.rblocks:
        if not rb.spec.ok and not getattr(rb, "staged", False) and fmt != "geogram":
            ctx.undecided("C04-E1", cx.rs(rb.node), f"{fmt}: the {rb.kind} row stored by the importer is built in a way the reader model "
                          f"does not read", "")


def coord_leaf_verdict(lf, c):
    """(ok | None undecided | False, explanation) for the expression of a coordinate leaf"""
    e = lf.expr
    if isinstance(e, ast.Starred):
        v = e.value
        if isinstance(v, (ast.GeneratorExp, ast.ListComp)):
            e = v.elt
        else:
            return True, ""
    calls = [x for x in au.walk(e) if isinstance(x, ast.Call)]
    for call in calls:
        t = au.call_tail(call)
        if t in IDENTITY_CONV and not call.keywords:
            continue
        if t in NUM_CONV or t in ("abs", "fabs"):
            return False, f"passes through {t}()"
        kws = {k.arg for k in call.keywords if k.arg}
        if t == "format_float_scientific" and all(isinstance(k.value, ast.Constant) and isinstance(k.value.value, int) and k.value.value >= 16
                                                  for k in call.keywords if k.arg == "precision") and not (kws - {"precision", "unique", "trim", "sign"}):
            continue
        if kws & PRECISION_KW and not all(isinstance(k.value, ast.Constant) and k.value.value is None
                                          for k in call.keywords if k.arg in PRECISION_KW):
            return False, f"is rendered by {t}() with an explicit {sorted(kws & PRECISION_KW)[0]}"
        if any(isinstance(a, ast.Constant) and isinstance(a.value, str) and ("%" in a.value or "{" in a.value) for a in call.args):
            return False, f"is rendered by {t}() with a format string"
        return None, f"is rendered by {t}(), which the rule does not know"
    if c[2] != 0:
        return (False, "is shifted / scaled before being written") if c[2] is not None else (None, "is combined with other values")
    in_index = {id(y) for x in au.walk(e) if isinstance(x, ast.Subscript) for y in ast.walk(x.slice)}
    if any(isinstance(x, ast.BinOp) and id(x) not in in_index for x in au.walk(e)):
        return False, "goes through arithmetic before being written"
    return True, ""


def lossless_spec(lf):
    """an explicit precision that still identifies every double: 17 significant digits (`.17g`, `.16e`, `%.17g`)"""
    import re
    sp = lf.spec or ""
    m = re.fullmatch(r"%?[-+ ]?\d*\.(\d+)([geGE]?)", sp) if lf.how == "percent" else re.fullmatch(r"[<>^=]?[-+ ]?\d*\.(\d+)([geGE]?)", sp)
    if not m or lf.conv not in (None, "s", "r") or (lf.conv and sp):
        return False
    digits, kind = int(m.group(1)), m.group(2).lower()
    return digits >= (16 if kind == "e" else 17)


def l1_writer(cx):
    ctx, fmt = cx.ctx, cx.fmt
    n = 0
    seen = set()
    for blk in cx.blocks:
        if blk.kind != "vertices":
            continue
        for lf in blk.leaves:
            c = em.leaf_class(cx.prov, lf)
            key = (id(lf.node), au.src(lf.expr), lf.spec, lf.conv)
            if key in seen or not c:
                continue
            seen.add(key)
            n += 1
            site = cx.ws(lf.node)
            ctx.check(lf.plain() or lossless_spec(lf), "C04-L1", site,
                      f"{fmt}: coordinate `{au.src(lf.expr)}` is written with format {spec_text(lf)!r}"
                      if not lf.plain() else f"{fmt}: coordinate default-formatted",
                      "a precision / conversion in the format loses bits (or changes the token): the reloaded coordinate differs "
                      "from the saved one", note=f"{fmt}: coordinate rendered with the default float repr")
            ok, why = coord_leaf_verdict(lf, c)
            if ok is None:
                ctx.undecided("C04-L1", site, f"{fmt}: a coordinate {why}", "cannot tell whether the text round-trips")
            else:
                ctx.check(ok, "C04-L1", site, f"{fmt}: coordinate is transformed before being written: it {why}",
                          "rounding / casting / arithmetic / fixed-precision rendering of a coordinate is lossy",
                          note=f"{fmt}: coordinate written as is")
    if n == 0:
        ctx.undecided("C04-L1", cx.ws(), f"{fmt}: rendering of the vertex coordinates not recognised in the exporter", "")
    return n


def b1_writer(cx):
    ctx, fmt = cx.ctx, cx.fmt
    n = 0
    seen = set()
    for blk in cx.blocks:
        if blk.kind not in INDEX_KINDS:
            continue
        for lf in blk.leaves:
            c = em.leaf_class(cx.prov, lf)
            key = (id(lf.node), au.src(lf.expr))
            if key in seen or not c:
                continue
            seen.add(key)
            n += 1
            off = c[2]
            site = cx.ws(lf.node)
            if off is None:
                ctx.undecided("C04-B1", site, f"{fmt}: a {c[1]} index is not written as `index + constant`", "")
                continue
            ctx.check(off == BASE[fmt], "C04-B1", site,
                      f"{fmt}: {c[1]} index written with offset {off:+d}, the format is {BASE[fmt]}-based",
                      f"every vertex index of the saved file is shifted by {off - BASE[fmt]:+d} for any reader "
                      f"of the format (including the library's own importer)",
                      note=f"{fmt}: {c[1]} index written as index{BASE[fmt]:+d}")
            ctx.check(lf.plain() or (lf.how in ("format", "fstring") and lf.spec in ("", "d") and lf.conv is None)
                      or (lf.how == "percent" and lf.spec in ("%d", "%i", "%s")),
                      "C04-B1", site, f"{fmt}: a {c[1]} index is written with the non-integer format {spec_text(lf)!r}",
                      "an index must be written as a plain integer token")
    return n


def b1_reader(cx):
    ctx, fmt = cx.ctx, cx.fmt
    n = 0
    for rb in cx.rblocks:
        if rb.kind not in INDEX_KINDS or not rb.spec.convs:
            continue
        n += 1
        site = cx.rs(rb.node)
        offs = rb.spec.offsets
        if None in offs:
            ctx.undecided("C04-B1", site, f"{fmt}: {rb.kind} index is not parsed as `int(token) + constant`", "")
            continue
        bad = sorted(o for o in offs if o != -BASE[fmt])
        ctx.check(not bad, "C04-B1", site,
                  f"{fmt}: {rb.kind} index read with offset {bad[0] if bad else 0:+d}, the format is {BASE[fmt]}-based",
                  f"every vertex index of a loaded {rb.kind[:-1]} is shifted by {(bad[0] if bad else 0) + BASE[fmt]:+d} "
                  f"(the exporter and every conforming writer add {BASE[fmt]})",
                  note=f"{fmt}: {rb.kind} index read as int(token){-BASE[fmt]:+d}")
        ctx.check(not (rb.spec.convs & (FLOAT_OK | {"float16", "float32", "half", "single", "round", "around", "rint"})), "C04-B1", site,
                  f"{fmt}: {rb.kind} index parsed with {sorted(rb.spec.convs)} instead of int", "indices are integer tokens")
    return n


def l1_reader(cx):
    ctx, fmt = cx.ctx, cx.fmt
    n = 0
    for rb in cx.rblocks:
        if rb.kind != "vertices" or not rb.spec.ok:
            continue
        site = cx.rs(rb.node)
        if not rb.spec.convs:
            ctx.undecided("C04-L1", site, f"{fmt}: conversion of the coordinate tokens not recognised in the importer", "")
            continue
        n += 1
        if None in rb.spec.offsets:
            ctx.undecided("C04-L1", site, f"{fmt}: a parsed coordinate goes through arithmetic the rule does not read", "")
            continue
        ctx.check(rb.spec.convs <= FLOAT_OK and rb.spec.offsets <= {0}, "C04-L1", site,
                  f"{fmt}: coordinates are parsed with {sorted(rb.spec.convs)}"
                  f"{' and shifted' if not rb.spec.offsets <= {0} else ''} instead of float()",
                  "a double written with its shortest repr is recovered bit-exactly by float(); a narrower type or rounding is lossy",
                  note=f"{fmt}: coordinates parsed with float()")
    return n


def altering_wrappers(e):
    out = []
    for _ in range(4):
        if isinstance(e, ast.Call) and au.call_tail(e) in cc.Prov.ROW_WRAPPERS and e.args:
            if au.call_tail(e) in ORDER_DESTROYING:
                out.append(au.call_tail(e))
            e = e.args[0]
        elif isinstance(e, ast.Subscript) and isinstance(e.slice, ast.Slice):
            sl = e.slice
            if not (sl.lower is None and sl.upper is None and (sl.step is None or au.const(sl.step) == 1)):
                out.append("slice")
            e = e.value
        else:
            break
    return out


def v1_writer(cx):
    """no order-changing wrapper touches a face / cell row on its way to the file"""
    ctx, fmt, prov, fn = cx.ctx, cx.fmt, cx.prov, cx.wfn
    n = 0
    written = set()
    for x, _p in em.walk(cx.tree):
        roots = [x.leaf.expr] if isinstance(x, em.Lf) else ([x.iter] if isinstance(x, em.Rep) else [])
        for r in roots:
            for y in ast.walk(r):
                written.add(id(y))
    for node in au.walk(fn):
        its = []
        if isinstance(node, ast.For):
            its.append((node.iter, node))
        elif isinstance(node, ast.comprehension):
            its.append((node.iter, au.parent(node)))
        for it, at in its:
            x = cc.Prov.unwrap_row(it)
            rk = prov.row_expr_kind(x, it) if isinstance(x, ast.Name) else None
            if rk in ("faces", "cells"):
                n += 1
                ctx.check(not altering_wrappers(it), "C04-V1", cx.ws(at),
                          f"{fmt}: {rk} row is iterated through `{'/'.join(altering_wrappers(it))}` instead of the row itself",
                          "the vertex order of a face / cell must be written unchanged",
                          note=f"{fmt}: {rk} row iterated in stored order")
        bad = None
        if id(node) not in written and not (isinstance(node, ast.Call) and isinstance(node.func, ast.Attribute)
                                            and node.func.attr in ("sort", "reverse") and isinstance(au.parent(node), ast.Expr)):
            continue          # only what reaches the file (rendered values, iterated sequences) or in-place reordering of a row
        if isinstance(node, ast.Call) and au.call_tail(node) in ORDER_DESTROYING:
            bad = list(node.args) + ([node.func.value] if isinstance(node.func, ast.Attribute) else [])
        elif isinstance(node, ast.Subscript) and isinstance(node.slice, ast.Slice) and node.slice.step is not None \
                and isinstance(au.const(node.slice.step), int) and au.const(node.slice.step) < 0:
            bad = [node.value]
        if bad:
            for a in bad:
                for x in au.walk(a):
                    if isinstance(x, ast.Name):
                        r = prov.name_role(x.id, x)
                        if r and r[1] in ("faces", "cells"):
                            what = au.call_tail(node) if isinstance(node, ast.Call) else "[::-1]"
                            ctx.fail("C04-V1", cx.ws(node), f"{fmt}: `{what}` reorders a {r[1]} row before it is written",
                                     "the vertex order of a face / cell must be written unchanged")
    return n


def v1_reader(cx):
    ctx, fmt = cx.ctx, cx.fmt
    n = 0
    for rb in cx.rblocks:
        if rb.kind in ("faces", "cells"):
            n += 1
            ctx.check(not rb.spec.order_ops, "C04-V1", cx.rs(rb.node),
                      f"{fmt}: {rb.kind} row passes through {'/'.join(rb.spec.order_ops)} before being stored",
                      "the vertex order of a loaded face / cell must be the order in the file",
                      note=f"{fmt}: {rb.kind} row stored in file order")
    fn = cx.rfn
    b = cx.rb

    def feeds(node):
        """kinds of the containers the value computed at `node` ends up in (through locals); None = not into a container"""
        kinds = set()
        for a in [node] + list(au.ancestors(node)):
            if isinstance(a, ast.Call) and isinstance(a.func, ast.Attribute) and a.func.attr in ("append", "extend"):
                k = rd.container_of(a.func.value, b, a)
                if k:
                    kinds.add(k)
            if isinstance(a, ast.stmt):
                if isinstance(a, ast.Assign) and len(a.targets) == 1 and isinstance(a.targets[0], ast.Name):
                    t = a.targets[0].id
                    for u in au.walk(fn):
                        if isinstance(u, ast.Name) and u.id == t and isinstance(u.ctx, ast.Load) and u is not node:
                            if b.reaching(t, u) is a.value:
                                kinds |= feeds_simple(u)
                break
        return kinds

    def feeds_simple(node):
        kinds = set()
        for a in [node] + list(au.ancestors(node)):
            if isinstance(a, ast.Call) and isinstance(a.func, ast.Attribute) and a.func.attr in ("append", "extend"):
                k = rd.container_of(a.func.value, b, a)
                if k:
                    kinds.add(k)
            if isinstance(a, ast.stmt):
                break
        return kinds
    for c in au.calls(fn):
        if au.call_tail(c) not in ORDER_DESTROYING:
            continue
        kinds = feeds(c)
        if kinds & {"faces", "cells"}:
            n += 1
            ctx.fail("C04-V1", cx.rs(c), f"{fmt}: `{au.call_tail(c)}` reorders data stored as {'/'.join(sorted(kinds & {'faces', 'cells'}))}",
                     "only edges are unordered pairs; a sorted / reversed / set-ified face or cell row changes the element")
    return n


def coordinate_order(cx):
    ctx, fmt = cx.ctx, cx.fmt
    for wb in cx.blocks:
        if wb.kind != "vertices":
            continue
        pos = [p for p in wb.positions if p is not None]
        if not pos or len(pos) != len(wb.positions):
            continue
        ctx.check(pos == [0, 1, 2], "C04-E1", cx.ws(wb.write),
                  f"{fmt}: coordinates are written in component order {pos} instead of [0, 1, 2]",
                  "the importer assigns the first three tokens of a vertex line to x, y, z",
                  note=f"{fmt}: x y z written in order")


def common_rules(cx, index=True):
    general(cx)
    if index:
        nb = b1_writer(cx) + b1_reader(cx)
        if nb == 0:
            cx.ctx.undecided("C04-B1", cx.ws(), f"{cx.fmt}: no vertex index site recognised", "")
        v1_writer(cx)
        v1_reader(cx)
    l1_writer(cx)
    if l1_reader(cx) == 0 and not any(rb.kind == "vertices" for rb in cx.rblocks):
        cx.ctx.undecided("C04-L1", cx.rs(), f"{cx.fmt}: parsing of the vertex coordinates not recognised in the importer", "")
    coordinate_order(cx)


# =========================================================================== tag / keyword matching
def keyed(rblocks):
    out = {}
    for rb in rblocks:
        for expr, const, pol, test in rb.keys:
            if expr is not None and pol:
                out.setdefault(const, []).append(rb)
                break
    return out


def readers_of_tag(cx, value, kinds=None):
    """(reader blocks that run when the token the importer branches on equals `value`, undecidable?) - the guards of every block
    are evaluated with that token substituted (==, !=, in, not in, and / or / not), whatever the layout of the if-chain"""
    rbs = [rb for rb in cx.rblocks if kinds is None or rb.kind in kinds]
    tag_e = tag_expression_str(cx.rblocks)
    if tag_e is None:
        return [], True
    cands, unknown = [], False
    for rb in rbs:
        r = branch_reads_tag(rb, tag_e, value)
        if r is None:
            unknown = True
        elif r and mentions_tag(rb, tag_e):
            cands.append(rb)
    return cands, unknown


def tag_has_branch(cx, value):
    """does some statement of the importer (other than continue / pass / raise) run specifically when the line tag equals `value`?
    True also when a guard cannot be evaluated"""
    tag_e = tag_expression_str(cx.rblocks)
    if tag_e is None:
        return True
    key = au.norm(tag_e)
    for st in au.stmts(cx.rfn.body):
        if isinstance(st, (ast.Continue, ast.Pass, ast.Raise, ast.If, ast.For, ast.While, ast.With, ast.Try, ast.FunctionDef)):
            continue
        gs = [(t, p) for t, p in au.guards(st) if any(au.norm(x) == key for x in au.walk(t) if isinstance(x, ast.expr))]
        pos = [(t, p) for t, p in gs if p or not (isinstance(t, ast.Compare) and isinstance(t.ops[0], (ast.Eq, ast.In)))]
        if not any(p and isinstance(t, ast.Compare) and isinstance(t.ops[0], (ast.Eq, ast.In)) for t, p in gs):
            continue          # not selected by a positive test on the tag (falls through for every tag)
        ok = True
        for t, p in gs:
            v = cc.eval_test(_TagSubst(key).visit(cc.clean(t)), {"__tag": value})
            if v is None:
                return True
            if bool(v) != p:
                ok = False
                break
        if ok:
            return True
    return False


def opaque_store_calls(cx):
    """calls of the importer that receive the loaded mesh / one of its containers and are not followed by the model: rows may be
    stored there"""
    out = []
    objs = {rb.node.func.value.value.id for rb in cx.rblocks if isinstance(rb.node, ast.Call) and isinstance(rb.node.func, ast.Attribute)
            and isinstance(rb.node.func.value, ast.Attribute) and isinstance(rb.node.func.value.value, ast.Name)}
    for st in au.stmts(cx.rfn.body):
        for n2, v in sym.split_assign(st):
            if isinstance(v, ast.Call) and au.call_tail(v) == "RawMeshData":
                objs.add(n2)
    for c in au.calls(cx.rfn):
        if isinstance(c.func, ast.Attribute) and c.func.attr in ("append", "extend", "create_attribute", "delete_attribute", "get_attribute",
                                                                  "has_attribute", "empty", "prepare"):
            continue
        for a in list(c.args) + [k.value for k in c.keywords]:
            if isinstance(a, ast.Name) and a.id in objs:
                out.append(c)
            elif isinstance(a, ast.Attribute) and isinstance(a.value, ast.Name) and a.value.id in objs and a.attr in cc.KINDS:
                out.append(c)
    return out


def mentions_tag(rb, tag_e):
    key = au.norm(tag_e)
    for test, pol in au.guards(getattr(rb, 'guard_node', rb.node)):
        if any(au.norm(x) == key for x in au.walk(test) if isinstance(x, ast.expr)):
            return True
    return False


def tag_expression_str(rblocks):
    """the expression the importer compares with string constants to choose what a line is (most frequent one)"""
    count = {}
    for rb in rblocks:
        for test, pol in au.guards(getattr(rb, 'guard_node', rb.node)):
            for c in au.walk(test):
                if isinstance(c, ast.Compare) and len(c.ops) == 1:
                    sides = [c.left, c.comparators[0]]
                    consts = [x for x in sides if isinstance(x, ast.Constant) and isinstance(x.value, str) or
                              isinstance(x, (ast.Tuple, ast.List, ast.Set)) and x.elts and all(isinstance(e, ast.Constant) and isinstance(e.value, str) for e in x.elts)]
                    others = [x for x in sides if x not in consts]
                    if len(consts) == 1 and len(others) == 1:
                        count.setdefault(au.norm(others[0]), [0, others[0]])[0] += 1
    if not count:
        return None
    return max(count.values(), key=lambda v: v[0])[1]


def known_tags(cx):
    tag_e = tag_expression_str(cx.rblocks)
    out = set()
    if tag_e is None:
        return out
    key = au.norm(tag_e)
    for n_ in au.walk(cx.rfn):
        if isinstance(n_, ast.Compare) and len(n_.ops) == 1 and any(au.norm(x) == key for x in (n_.left, n_.comparators[0])):
            for x in (n_.left, n_.comparators[0]):
                for y in (x.elts if isinstance(x, (ast.Tuple, ast.List, ast.Set)) else [x]):
                    if isinstance(y, ast.Constant) and isinstance(y.value, str):
                        out.add(y.value)
    return out


def reader_arity(rb):
    a = rb.spec.arity
    if a is None:
        return None
    if a[0] == "const":
        return a[1]
    if a[0] == "rest":
        return "rest"
    if a[0] == "sym":
        for expr, const, pol, test in rb.keys:
            if expr is not None and isinstance(expr, ast.Name) and expr.id == a[1] and pol:
                return const
        return ("sym", a[1])
    return None


def writer_arity(wb):
    """number of element values per row: an int, 'all' (whatever the row holds) or None (placeholders not tied to the row size)"""
    if wb.star:
        if wb.kind == "vertices":
            return wb.fields
        return wb.fields if wb.guard_n == wb.fields else None
    if wb.fields == "all":
        return wb.guard_n if wb.guard_n is not None else "all"
    return wb.fields


def star_consistency(cx, wb, label):
    """`'{} {} {}'.format(*row)`: a fixed number of placeholders fed by a starred row needs a selection `len(row) == N`"""
    if not wb.star:
        return True
    ctx = cx.ctx
    if wb.kind == "vertices":
        ctx.check(wb.fields == 3, "C04-E1", cx.ws(wb.write), f"{label}: the 3 coordinates of a vertex are written through {wb.fields} placeholder(s)",
                  "str.format silently drops surplus arguments / raises on missing ones", note=f"{label}: 3 coordinates per vertex")
        return wb.fields == 3
    ok = wb.guard_n == wb.fields
    if not ok and wb.guard_n is None and wb.other_guards and not any(
            em._len_eq(t, not p, lambda e: em._is_len_of(e, cx.prov, wb.kind, t)) is not None for t, p in wb.other_guards):
        ctx.undecided("C04-E1", cx.ws(wb.write), f"{label}: rows are selected by a condition the rule does not read", "")
        return False
    ctx.check(ok, "C04-E1", cx.ws(wb.write),
              f"{label}: rows of {wb.guard_n if wb.guard_n is not None else 'any number of'} indices are written through {wb.fields} placeholder(s)",
              "str.format silently drops surplus arguments / raises on missing ones: the row in the file does not hold "
              "the vertices of the element", note=f"{label}: {wb.fields} indices per row written")
    return ok


# =========================================================================== counters (medit)
def preceding_lines(blk):
    """lines of text written before the row repetition (same sequence, then the enclosing alternatives), up to the previous
    repetition"""
    lines = []
    for level in reversed(blk.before):
        items, stop = [], False
        for x in reversed(level):
            if isinstance(x, (em.Rep, em.Alt)):
                stop = True
                break
            items.insert(0, x)
        lines = em.tokenize(items) + lines
        if stop or len(lines) >= 2:
            break
    return lines


def counter_table(fn, b, prov, L, at):
    """for a list `L = [0, 0, ..]` whose slots are incremented in a loop over mesh.<kind> under conditions on len(row):
    (kind, {slot: N | ('else', excluded sizes) | ('bad', why)}) or None"""
    table, kind = {}, None
    init = b.reaching(L, at)
    biased = isinstance(init, (ast.List, ast.Tuple)) and any(isinstance(au.const(e), int) and au.const(e) != 0 for e in init.elts)
    for st in au.stmts(fn.body):
        inc = au.increment(st)
        if inc is None:
            continue
        tgt = st.target if isinstance(st, ast.AugAssign) else st.targets[0]
        if not (isinstance(tgt, ast.Subscript) and isinstance(tgt.value, ast.Name) and tgt.value.id == L):
            continue
        i = au.const(tgt.slice)
        loops = [a_ for a_ in au.ancestors(st) if isinstance(a_, ast.For)]
        if not loops or not isinstance(i, int):
            return None
        k = prov.container_kind(cc.strip_enumerate(loops[0].iter)[0])
        if k is None or (kind is not None and k != kind):
            return None
        kind = k
        if i in table:
            return None
        if inc[1] != 1 or au.const(inc[2]) != 1:
            table[i] = ("bad", f"the counter is advanced by {'-' if inc[1] < 0 else ''}{au.src(inc[2])} per row")
            continue
        val, excluded = None, []
        for test, pol in au.guards(st, stop=loops[0]):
            t = cc.resolve(b, test, at=st, keep=tuple(au.names(loops[0].target)))
            n = em._len_eq(t, True, lambda e: em._is_len_of(e, prov, kind, test))
            if n is None:
                n2 = em._len_eq(t, False, lambda e: em._is_len_of(e, prov, kind, test))
                if n2 is None:
                    return None
                n, pol = n2, not pol
            if pol and val is None:
                val = n
            elif not pol:
                excluded.append(n)
            else:
                return None
        table[i] = val if val is not None else ("else", tuple(sorted(excluded)))
        if biased:
            table[i] = ("bad", "the counter does not start at 0")
    return (kind, table) if table else None


def count_meaning(cx, expr, blk):
    """what a written count is: ('all', kind) | ('eq', kind, N) | ('iter', source) | ('else', ..) | None"""
    b, prov, fn = cx.b, cx.prov, cx.wfn
    at = blk.rep.node
    e = expr
    if isinstance(e, ast.Name):
        bd = prov.find_binding(e.id, at if au.parent(e) is None else e)
        if bd and bd[2] == "assign":
            tgt, val = bd[0], bd[1]
            if isinstance(tgt, (ast.Tuple, ast.List)) and isinstance(val, ast.Name):
                pos = [i for i, t in enumerate(tgt.elts) if isinstance(t, ast.Name) and t.id == e.id]
                ct = counter_table(fn, b, prov, val.id, at)
                if ct and pos:
                    got = ct[1].get(pos[0])
                    if isinstance(got, int):
                        return ("eq", ct[0], got)
                    if got is not None:
                        return (got[0], ct[0], got[1])
                return None
            if isinstance(tgt, ast.Name):
                return count_meaning(cx, val, blk)
        # a scalar counter incremented in a loop
        return None
    if isinstance(e, ast.Subscript) and isinstance(e.value, ast.Name) and isinstance(au.const(e.slice), int):
        ct = counter_table(fn, b, prov, e.value.id, at)
        if ct:
            got = ct[1].get(au.const(e.slice))
            if isinstance(got, int):
                return ("eq", ct[0], got)
        return None
    if isinstance(e, ast.Call) and isinstance(e.func, ast.Name) and e.func.id == "len" and len(e.args) == 1:
        a = e.args[0]
        k = prov.container_kind(a)
        if k in cc.KINDS:
            return ("all", k)
        if isinstance(a, ast.Name):
            d = b.reaching(a.id, at)
            if isinstance(d, (ast.ListComp, ast.GeneratorExp)):
                a = d
        if isinstance(a, (ast.ListComp, ast.GeneratorExp)):
            return _count_comp(cx, a, need_one=False)
        return ("iter", au.norm(cc.resolve(b, a, at=at)))
    if isinstance(e, ast.Call) and isinstance(e.func, ast.Name) and e.func.id == "sum" and len(e.args) == 1 \
            and isinstance(e.args[0], (ast.ListComp, ast.GeneratorExp)):
        return _count_comp(cx, e.args[0], need_one=True)
    return None


def _count_comp(cx, comp, need_one):
    prov = cx.prov
    if len(comp.generators) != 1:
        return None
    g = comp.generators[0]
    k = prov.container_kind(g.iter)
    if k not in cc.KINDS:
        return None
    if need_one and au.const(comp.elt) != 1:
        # sum(len(f) == 3 for f in mesh.faces)
        n = em._len_eq(comp.elt, True, lambda e: em._is_len_of(e, prov, k, comp.elt))
        return ("eq", k, n) if n is not None and not g.ifs else None
    if not g.ifs:
        return ("all", k)
    if len(g.ifs) == 1:
        n = em._len_eq(g.ifs[0], True, lambda e: em._is_len_of(e, prov, k, g.ifs[0]))
        if n is not None:
            return ("eq", k, n)
    return None


def block_count_verdict(cx, wb, cnt_expr):
    """(True | False | None, explanation): is the written count the number of rows the block writes?"""
    e0 = cnt_expr
    if isinstance(e0, ast.Call) and isinstance(e0.func, ast.Name) and e0.func.id == "len" and len(e0.args) == 1 \
            and isinstance(e0.args[0], ast.Name) and getattr(wb.rep, "src_list", None) == e0.args[0].id:
        return True, "count = length of the list of lines written"
    if isinstance(e0, ast.Call) and isinstance(e0.func, ast.Name) and e0.func.id == "len" and len(e0.args) == 1 and not wb.rep.ifs:
        it0 = cc.strip_enumerate(wb.rep.iter)[0]
        src0 = getattr(wb.rep, "src_iter", None)
        same = au.norm(cc.resolve(cx.b, e0.args[0], at=wb.rep.node)) == au.norm(cc.resolve(cx.b, it0, at=wb.rep.node)) or \
            (src0 is not None and au.norm(e0.args[0]) == au.norm(cc.strip_enumerate(src0)[0]))
        if same and not [t for t, p in wb.conds_row]:
            return True, "count = length of the sequence iterated"
    m = count_meaning(cx, cnt_expr, wb)
    if m is None:
        return None, "count expression not recognised"
    if wb.other_guards:
        return None, "rows are selected by a condition the rule does not read"
    if wb.guard_n is None:
        if wb.via == "loop":
            return (m == ("all", wb.kind)), f"count is {describe_count(m)}, the block writes every row of mesh.{wb.kind}"
        it = cc.strip_enumerate(wb.rep.iter)[0]
        src = au.norm(cc.resolve(cx.b, it, at=wb.rep.node))
        if m[0] == "iter":
            return (True if m[1] == src else None), "count = len(iterated ids)" if m[1] == src else "count is the length of a sequence the rule does not relate to the rows"
        if m == ("all", wb.kind) and wb.via in ("index", "slice"):
            return False, f"count is {describe_count(m)}, the block writes a subset of them"
        return None, "rows are picked through an id sequence"
    if m[0] == "eq":
        return (m[1] == wb.kind and m[2] == wb.guard_n), \
            f"count is {describe_count(m)}, the block writes the rows of mesh.{wb.kind} with {wb.guard_n} vertices"
    if m[0] in ("all", "else", "bad"):
        return False, f"count is {describe_count(m)}, the block writes the rows of mesh.{wb.kind} with {wb.guard_n} vertices"
    return None, "count expression not recognised"


def describe_count(m):
    if m[0] == "all":
        return f"the number of rows of mesh.{m[1]}"
    if m[0] == "eq":
        return f"the number of rows of mesh.{m[1]} with {m[2]} vertices"
    if m[0] == "else":
        return f"the number of rows of mesh.{m[1]} with another size than {list(m[2])}"
    if m[0] == "bad":
        return f"not a count of rows ({m[2]})"
    return "the length of a local sequence"


# =========================================================================== medit
def run_medit(ctx):
    cx = Codec(ctx, "medit")
    fmt = "medit"
    ktags = known_tags(cx)
    kw_of = {}
    for wb in cx.blocks:
        site = cx.ws(wb.write)
        lines = preceding_lines(wb)
        kw = cnt = None
        if len(lines) >= 2 and len(lines[-2]) == 1 and isinstance(lines[-2][0], em.Token) and lines[-2][0].literal() is not None \
                and len(lines[-1]) == 1 and isinstance(lines[-1][0], em.Token) and lines[-1][0].single_leaf() is not None:
            kw, cnt = lines[-2][0].literal(), lines[-1][0].single_leaf()
        if kw is None:
            ctx.undecided("C04-E1", site, f"medit: keyword / count lines of a {wb.kind} block not recognised",
                          "each medit block is `Keyword`, the number of rows, then the rows")
            continue
        kw_of[id(wb)] = kw
        if wb.unknown:
            continue
        star_ok = star_consistency(cx, wb, f"medit {kw}")
        N = writer_arity(wb)
        # count
        ok, why = block_count_verdict(cx, wb, cnt.expr)
        if ok is None:
            ctx.undecided("C04-H1", site, f"medit {kw}: cannot relate the count written to the rows written", why)
        else:
            ctx.check(ok, "C04-H1", site, f"medit {kw}: the count written is not the number of rows written after it", why,
                      note=f"medit {kw}: {why}")
        # a condition on the number of rows of the block must let a single row through
        m_cnt = count_meaning(cx, cnt.expr, wb)
        for t, pol in wb.conds:
            tt = t
            if isinstance(tt, ast.Compare) and len(tt.ops) == 1:
                for side in (tt.left, tt.comparators[0]):
                    if isinstance(side, (ast.Name, ast.Call)) and m_cnt is not None and count_meaning(cx, side, wb) == m_cnt \
                            and au.src(side) == au.src(cnt.expr):
                        v = cc.eval_test(_TagSubst(au.norm(side)).visit(cc.clean(tt)), {"__tag": 1})
                        if v is not None:
                            ctx.check(bool(v) == pol, "C04-C1", site,
                                      f"medit {kw}: the block is skipped when there is exactly one such element",
                                      "the condition on the number of rows excludes a mesh with a single element of that kind",
                                      note=f"medit {kw}: written as soon as one row qualifies")
        # reader block for this keyword
        rbs, unsure = readers_of_tag(cx, kw)
        if not rbs:
            if not unsure and len(ktags) >= 3 and cx.reader_understood() and not opaque_store_calls(cx) and not tag_has_branch(cx, kw):
                ctx.fail("C04-E1", site, f"medit: section keyword `{kw}` is not recognised by import_medit",
                         f"the {wb.kind} written under `{kw}` are skipped on reload")
            else:
                ctx.undecided("C04-E1", site, f"medit: importer branch for the section keyword `{kw}` not recognised", "")
            continue
        rb = rbs[0]
        rs = cx.rs(rb.node)
        ctx.check(rb.kind == wb.kind, "C04-E1", rs,
                  f"medit {kw}: written from mesh.{wb.kind}, read into {rb.kind}",
                  f"elements saved as {wb.kind} come back as {rb.kind}", note=f"medit {kw}: {wb.kind} on both sides")
        if rb.spec.ok and star_ok:
            ra = reader_arity(rb)
            if N == "all" and wb.kind != "vertices":
                # every row of the container, whatever its size, goes under this keyword
                if wb.other_guards:
                    ctx.undecided("C04-E1", rs, f"medit {kw}: rows are selected by a condition the rule does not read", "")
                else:
                    ctx.check(ra == "rest", "C04-E1", rs,
                              f"medit {kw}: {wb.kind} of any size are written under this keyword, parsed with {ra} indices",
                              f"an element with another number of vertices than {ra} is truncated or mis-parsed on reload")
            elif N is not None and ra is not None and not isinstance(ra, tuple):
                if ra == "rest":
                    ra = N
                what = "coordinates" if wb.kind == "vertices" else "indices"
                ctx.check(ra == N and rb.spec.skip == wb.tag_fields, "C04-E1", rs,
                          f"medit {kw}: written with {N} {what} per row, parsed with {ra}",
                          f"import_medit keeps {ra} token(s) of each `{kw}` row (after skipping {rb.spec.skip}) while export_medit writes "
                          f"{N} {what} followed by {wb.trailing} reference token(s): the reloaded "
                          f"{wb.kind[:-1] if wb.kind != 'vertices' else 'vertex'} is not the saved one",
                          note=f"medit {kw}: {N} {what} per row on both sides")
            else:
                ctx.undecided("C04-E1", rs, f"medit {kw}: number of values per row not comparable", f"writer {N}, reader {ra}")
        if rb.kind != "vertices":
            cnt_ok = rb.count is not None and any(isinstance(x, ast.Call) and isinstance(x.func, ast.Name) and x.func.id == "int"
                                                  for x in au.walk(cc.resolve(rb.b, rb.count, at=rb.node)))
            if rb.count is None:
                ctx.undecided("C04-H1", rs, f"medit {kw}: the loop reading the rows is not bounded by a count the rule recognises", "")
            elif cnt_ok:
                ctx.ok("C04-H1", rs, f"medit {kw}: number of rows read from the count line")
            else:
                ctx.undecided("C04-H1", rs, f"medit {kw}: where the number of rows to parse comes from is not recognised", "")
    # a keyword line the importer knows, written without its rows
    if cx.writer_understood():
        used = set(kw_of.values())
        for ln in all_lines(cx.tree):
            if len(ln) == 1 and isinstance(ln[0], em.Token) and ln[0].literal() in ktags and ln[0].literal() != "End":
                kw = ln[0].literal()
                ctx.check(kw in used, "C04-E1", cx.ws(), f"medit: section `{kw}` is announced but no loop writes its rows",
                          "the importer reads as many rows as the count says from whatever follows",
                          note=f"medit: section {kw} is followed by its rows")
    common_rules(cx)
    return cx


def all_lines(tree):
    """every line (token list) the tree can emit: runs of text between alternatives / line-emitting repetitions, recursively
    (a line cut by an alternative is returned in pieces)"""
    out = []

    def rec(items):
        run = []

        def flush():
            if run:
                for ln in em.tokenize(run):
                    out.append([t for t in ln if not isinstance(t, tuple)])
                run.clear()
        for x in items:
            if isinstance(x, em.Alt):
                flush()
                rec(x.a)
                rec(x.b)
            elif isinstance(x, em.Rep) and (em.has_newline(x.body) or (x.sep and "\n" in x.sep)):
                flush()
                rec(x.body)
            else:
                run.append(x)
        flush()
    rec(tree)
    return out


# =========================================================================== obj and the other tagged / untagged rows
def tagged_rules(cx, vertices_dim=3):
    """E1 for rows that start with a literal tag (obj) or have no tag at all (xyz, tet/off vertices)."""
    ctx, fmt = cx.ctx, cx.fmt
    ktags = known_tags(cx)
    for wb in cx.blocks:
        if isinstance(wb.tag, tuple) or wb.unknown:
            continue
        site = cx.ws(wb.write)
        if wb.tag is not None:
            cands, unsure = readers_of_tag(cx, wb.tag)
            if not cands:
                if not unsure and len(ktags) >= 3 and cx.reader_understood() and not opaque_store_calls(cx) \
                        and not tag_has_branch(cx, wb.tag) and not any(getattr(rb, "staged_failed", False) or (not rb.spec.ok and not getattr(rb, "staged", False)) for rb in cx.rblocks):
                    ctx.fail("C04-E1", site, f"{fmt}: rows tagged `{wb.tag}` are written but the importer has no branch for that tag",
                             f"the {wb.kind} of a saved mesh are dropped on reload")
                else:
                    ctx.undecided("C04-E1", site, f"{fmt}: importer branch for rows tagged `{wb.tag}` not recognised", "")
                continue
        else:
            cands = [rb for rb in cx.rblocks if rb.kind == wb.kind and not any(k[0] is not None and k[2] and isinstance(k[1], str) and k[1].islower()
                                                                               for k in rb.keys)]
            if not cands:
                ctx.undecided("C04-E1", site, f"{fmt}: importer statement storing {wb.kind} rows not recognised", "")
                continue
        rb = cands[0]
        rs = cx.rs(rb.node)
        tg = f"`{wb.tag}` " if wb.tag else ""
        if wb.tag is not None:
            for expr, const, pol, test in rb.keys:
                if pol and const == wb.tag and isinstance(expr, ast.Subscript) and isinstance(au.const(expr.slice), int):
                    ctx.check(au.const(expr.slice) == 0, "C04-E1", rs,
                              f"{fmt}: the importer looks for the tag `{wb.tag}` in token {au.const(expr.slice)} of the line, it is "
                              f"written first", "no line of a saved file is recognised as that element",
                              note=f"{fmt}: tag `{wb.tag}` is the first token on both sides")
        ctx.check(rb.kind == wb.kind, "C04-E1", rs, f"{fmt}: {tg}rows are written from mesh.{wb.kind} and read into {rb.kind}",
                  f"elements saved as {wb.kind} come back as {rb.kind}", note=f"{fmt}: {tg}rows are {wb.kind} on both sides")
        if not rb.spec.ok:
            continue
        known = [p_ for p_ in rb.spec.token_positions if p_ is not None]
        if known and len(known) == len(rb.spec.token_positions):
            ctx.check(known == list(range(known[0], known[0] + len(known))), "C04-E1", rs,
                      f"{fmt}: {tg}{wb.kind} row is built from tokens {known}, not from consecutive tokens",
                      "the exporter writes the indices of an element one after the other",
                      note=f"{fmt}: {tg}row read from consecutive tokens")
        if not star_consistency(cx, wb, f"{fmt} {tg.strip() or wb.kind}"):
            continue
        wa, ra = writer_arity(wb), reader_arity(rb)
        if wa == "all" and wb.kind == "vertices":
            wa = vertices_dim
        if ra == "rest" and wb.trailing == 0:
            ra = wa
        if wa is None or ra is None or isinstance(ra, tuple):
            ctx.undecided("C04-E1", rs, f"{fmt}: number of values per {tg}{wb.kind} row not comparable", f"writer {wa}, reader {ra}")
        elif wa == "all":
            ctx.check(ra == "rest" or ra == "all", "C04-E1", rs,
                      f"{fmt}: {tg}{wb.kind} rows of any size are written, the importer keeps {ra} value(s) per row",
                      "an element with more vertices is truncated on reload")
        else:
            ctx.check(wa == ra, "C04-E1", rs,
                      f"{fmt}: {tg}{wb.kind} rows are written with {wa} value(s) and parsed with {ra}",
                      f"the importer keeps {ra} token(s) per row, the exporter writes {wa}"
                      f"{' followed by ' + str(wb.trailing) + ' more token(s)' if wb.trailing else ''}",
                      note=f"{fmt}: {tg}{wb.kind} rows carry {wa} value(s) on both sides")
        ctx.check(rb.spec.skip == wb.tag_fields, "C04-E1", rs,
                  f"{fmt}: {tg}{wb.kind} rows start with {wb.tag_fields} tag token(s), the importer skips {rb.spec.skip}",
                  "a tag parsed as a value (or a value skipped as a tag) shifts every row",
                  note=f"{fmt}: {wb.tag_fields} leading tag token(s) on both sides")


def obj_face_reader(cx, rb):
    """faces are staged: `L.append([parse(t) for t in toks[1:]])` under tag 'f', then `for F in L: for (vid, ..) in F:
    face.append(vid)`; `obj.faces.append(face)`.  Fills rb.spec / rb.keys; returns an explanation when the staging is not read."""
    fn, b = cx.rfn, rb.b
    arg = rb.row
    if not isinstance(arg, ast.Name):
        return "appended face is not a local list"
    row = arg.id
    prov = cc.Prov(fn)
    adds = [c for c in au.calls(fn) if au.call_tail(c) == "append" and isinstance(c.func.value, ast.Name)
            and c.func.value.id == row and len(c.args) == 1 and isinstance(c.args[0], ast.Name)]
    d_row = b.reaching(row, rb.node)
    if not adds and isinstance(d_row, (ast.ListComp, ast.GeneratorExp)) and len(d_row.generators) == 1 and not d_row.generators[0].ifs \
            and isinstance(d_row.elt, ast.Name) and isinstance(d_row.generators[0].target, (ast.Tuple, ast.List)) \
            and isinstance(d_row.generators[0].iter, ast.Name):
        # face = [vid for (vid, vt, vn) in F]
        g0 = d_row.generators[0]
        ps_ = [i for i, t in enumerate(g0.target.elts) if isinstance(t, ast.Name) and t.id == d_row.elt.id]
        if len(ps_) != 1:
            return "vertex id is not unpacked from the parsed (v, vt, vn) triple"
        pos = ps_[0]
        inner = getattr(b, "_last_def_stmt", rb.node)
        bd = (g0.target, g0.iter, "comp", d_row)
    else:
        if len(adds) != 1:
            return "the vertex ids of a face are not appended one by one to a local list"
        vid = adds[0].args[0].id
        bd = prov.find_binding(vid, adds[0])
        if not bd or bd[2] != "for" or not isinstance(bd[0], (ast.Tuple, ast.List)) or not isinstance(bd[1], ast.Name):
            return "vertex id is not unpacked from the parsed (v, vt, vn) triple"
        pos = [i for i, t in enumerate(bd[0].elts) if isinstance(t, ast.Name) and t.id == vid][0]
        inner = bd[3]
        if au.guards(adds[0], stop=inner):
            return "vertex id appended conditionally"
    bd2 = prov.find_binding(bd[1].id, inner)
    if not bd2 or bd2[2] != "for":
        return "face token list is not iterated from the staged faces"
    src_e, en = cc.strip_enumerate(bd2[1])
    if not isinstance(src_e, ast.Name):
        return "staged faces list not found"
    outer = bd2[3]
    if not any(a is outer for a in au.ancestors(rb.node)) or au.guards(rb.node, stop=outer) \
            or any(isinstance(a, ast.For) and a is not outer for a in au.ancestors(rb.node) if a is not outer and
                   any(x is a for x in au.walk(outer))):
        return "faces are not stored once per staged face"
    stage = [c for c in au.calls(fn) if au.call_tail(c) == "append" and isinstance(c.func.value, ast.Name)
             and c.func.value.id == src_e.id and len(c.args) == 1]
    if len(stage) != 1:
        return "staging append not found"
    comp = stage[0].args[0]
    if not (isinstance(comp, (ast.ListComp, ast.GeneratorExp)) and len(comp.generators) == 1 and not comp.generators[0].ifs):
        return "staged face is not [parse(token) for token in tokens]"
    elt = comp.elt
    if isinstance(elt, ast.Name):
        elt = b.reaching(elt.id, stage[0]) or elt
    if not isinstance(elt, ast.Tuple) or pos >= len(elt.elts):
        return "the parsed token is not a tuple (v, vt, vn)"
    e = elt.elts[pos]
    conv, off = rd.conv_of(e)
    sub = [x for x in au.walk(e) if isinstance(x, ast.Subscript) and isinstance(au.const(x.slice), int)]
    if not sub:
        return "vertex id is not taken from a '/'-separated field of the token"
    rs = rb.spec
    rs.convs, rs.offsets = ({conv} if conv else set()), ({off} if conv else set())
    it = comp.generators[0].iter
    rs.skip, rs.arity = rd.slice_info(it.slice) if isinstance(it, ast.Subscript) and isinstance(it.slice, ast.Slice) else (0, ("rest",))
    base_ = it.value if isinstance(it, ast.Subscript) and isinstance(it.slice, ast.Slice) else it
    if isinstance(base_, ast.Name) and rs.skip is not None:
        off_ = rd.base_offset(b, base_.id, stage[0])
        rs.skip = None if off_ is None else rs.skip + off_
    elif not isinstance(base_, ast.Name):
        rs.skip = None
    rs.ok = rs.arity is not None and rs.skip is not None
    if not rs.ok:
        return "position of the face tokens in the line not recognised"
    rb.keys = rd.branch_keys(stage[0])
    rb.guard_node = stage[0]
    rb.staged = True
    rb.first_field = au.const(sub[0].slice)
    return None


def line_tags(cx):
    """{first literal token of a written line: a node}"""
    out = {}
    for ln in all_lines(cx.tree):
        if ln and isinstance(ln[0], em.Token):
            lit = ln[0].literal()
            if lit is None and ln[0].parts and ln[0].parts[0][0] == "lit":
                continue
            if lit is not None:
                out.setdefault(lit, cx.wfn)
    return out


def run_obj(ctx):
    cx = Codec(ctx, "obj")
    fmt = "obj"
    for rb in list(cx.rblocks):
        if rb.kind == "faces" and (not rb.spec.ok or not rb.spec.convs):
            err = obj_face_reader(cx, rb)
            if err:
                rb.staged_failed = True
                ctx.undecided("C04-E1", cx.rs(rb.node), "obj: parsing of `f` lines into faces not recognised", err)
            else:
                ctx.check(rb.first_field == 0, "C04-E1", cx.rs(rb.node),
                          f"obj: the vertex id of a face corner is read from field {rb.first_field} of the v/vt/vn token",
                          "the exporter writes the vertex index first", note="obj: vertex id = first '/'-separated field")
    rtags = set()
    for n_ in au.walk(cx.rfn):
        if isinstance(n_, ast.Compare) and len(n_.ops) == 1 and isinstance(n_.ops[0], (ast.Eq, ast.In)):
            for x in [n_.left] + list(n_.comparators):
                for y in (x.elts if isinstance(x, (ast.Tuple, ast.List, ast.Set)) else [x]):
                    if isinstance(y, ast.Constant) and isinstance(y.value, str):
                        rtags.add(y.value)
        if isinstance(n_, ast.Dict):
            rtags |= {k.value for k in n_.keys if isinstance(k, ast.Constant) and isinstance(k.value, str)}
    wt = line_tags(cx)
    fuzzy = any(isinstance(n_, ast.Call) and au.call_tail(n_) in ("startswith", "match", "search", "fullmatch", "partition") for n_ in au.walk(cx.rfn)) \
        or any(type(n_).__name__ == "Match" for n_ in au.walk(cx.rfn))
    if len(rtags) >= 3 and wt and not fuzzy:
        for t in sorted(wt):
            ctx.check(t in rtags, "C04-E1", cx.ws(), f"obj: lines tagged `{t}` are written but not recognised by the importer",
                      "the data on those lines is lost on reload", note=f"obj: tag `{t}` known to the importer")
    else:
        ctx.undecided("C04-E1", cx.ws(), "obj: line tags of the exporter / the importer not recognised", "")
    tagged_rules(cx)
    common_rules(cx)
    return cx


# =========================================================================== off / tet  (rows tagged with their length)
TAG_DOMAIN = range(2, 9)


class _TagSubst(ast.NodeTransformer):
    def __init__(self, key):
        self.key = key

    def generic_visit(self, node):
        if isinstance(node, ast.expr) and au.norm(node) == self.key:
            return ast.Name(id="__tag", ctx=ast.Load())
        return super().generic_visit(node)


def tag_expression(rblocks):
    count = {}
    for rb in rblocks:
        if rb.kind == "vertices":
            continue
        for test, pol in au.guards(getattr(rb, 'guard_node', rb.node)):
            for c in au.walk(test):
                if isinstance(c, ast.Compare):
                    for side in [c.left] + list(c.comparators):
                        if not isinstance(side, (ast.Constant, ast.Tuple, ast.List, ast.Set)):
                            count.setdefault(au.norm(side), [0, side])[0] += 1
    if not count:
        return None
    return max(count.values(), key=lambda v: v[0])[1]


def branch_reads_tag(rb, tag_e, t):
    key = au.norm(tag_e)
    for test, pol in au.guards(getattr(rb, 'guard_node', rb.node)):
        mentions = any(au.norm(x) == key for x in au.walk(test) if isinstance(x, ast.expr))
        if not mentions:
            continue
        v = cc.eval_test(_TagSubst(key).visit(cc.clean(test)), {"__tag": t})
        if v is None:
            return None
        if bool(v) != pol:
            return False
    return True


def arity_for_tag(rb, tag_e, t):
    a = rb.spec.arity
    if a is None:
        return None
    if a[0] == "const":
        return a[1]
    if a[0] == "rest":
        return t
    if a[0] in ("sym", "symoff"):
        is_tag = False
        if tag_e is not None:
            if isinstance(tag_e, ast.Name) and tag_e.id == a[1]:
                is_tag = True
            else:
                d = rb.b.reaching(a[1], rb.node)
                is_tag = d is not None and au.norm(d) == au.norm(tag_e)
        if not is_tag:
            return ("sym", a[1])
        return t if a[0] == "sym" else t + a[2]
    return None


def len_tagged_rules(cx, domain):
    """Rows written as `len(row) v0 v1 ..`: for every tag t the exporter can write, which importer branch runs (its test evaluated
    for t over a finite tag domain), and does it store the same kind with t vertices."""
    ctx, fmt = cx.ctx, cx.fmt
    rblocks = cx.rblocks
    tag_e = tag_expression(rblocks)
    if tag_e is not None and any(isinstance(wb.tag, tuple) for wb in cx.blocks):
        rb0 = next((rb for rb in rblocks if rb.kind != "vertices"), None)
        if rb0 is not None:
            te = cc.resolve(rb0.b, tag_e, at=rb0.node)
            subs = [x for x in au.walk(te) if isinstance(x, ast.Subscript) and isinstance(au.const(x.slice), int)]
            if subs:
                ctx.check(au.const(subs[0].slice) == 0, "C04-E1", cx.rs(),
                          f"{fmt}: the row tag is read from token {au.const(subs[0].slice)}, the exporter writes the length first",
                          "a vertex index is taken for the number of vertices of the row", note=f"{fmt}: row tag = first token")
    for wb in cx.blocks:
        if not isinstance(wb.tag, tuple) or wb.unknown:
            continue
        site = cx.ws(wb.write)
        if wb.tag_fields != 1:
            ctx.undecided("C04-E1", site, f"{fmt}: layout of the length-tagged {wb.kind} rows not recognised", "")
            continue
        if wb.fields != "all":
            if wb.guard_n == wb.fields:
                pass
            elif wb.guard_n is None and not wb.other_guards:
                ctx.fail("C04-E1", site, f"{fmt}: a {wb.kind} row tagged with its length does not list all its vertices",
                         f"{wb.fields} index placeholder(s) follow the length, whatever the length")
                continue
            else:
                ctx.undecided("C04-E1", site, f"{fmt}: layout of the length-tagged {wb.kind} rows not recognised", "")
                continue
        ctx.ok("C04-E1", site, f"{fmt}: {wb.kind} row = len, then every vertex")
        if not cx.reader_understood():
            continue
        if wb.other_guards:
            ctx.undecided("C04-E1", site, f"{fmt}: {wb.kind} rows are selected by a condition the rule does not read", "")
            continue
        arities = [wb.guard_n] if wb.guard_n is not None else [t for t in TAG_DOMAIN if t >= domain[wb.kind]]
        dropped = []
        for a in arities:
            cands, unknown = [], False
            for rb in rblocks:
                if rb.kind == "vertices":
                    continue
                r = True if tag_e is None else branch_reads_tag(rb, tag_e, a)
                if r is None:
                    unknown = True
                elif r:
                    cands.append(rb)
            if unknown:
                ctx.undecided("C04-E1", cx.rs(), f"{fmt}: importer branch test on the row tag not understood",
                              f"cannot evaluate the test for tag {a}")
                break
            if not cands:
                dropped.append(a)
                continue
            rb = cands[0]
            rs = cx.rs(rb.node)
            if not rb.spec.ok:
                continue
            ra = arity_for_tag(rb, tag_e, a)
            ok_kind = rb.kind == wb.kind
            ctx.check(ok_kind, "C04-E1", rs,
                      f"{fmt}: a {wb.kind[:-1]} with {a} vertices is written with tag {a}, which the importer reads as a {rb.kind[:-1]}",
                      f"saved {wb.kind} with {a} vertices come back as {rb.kind}: the loaded object is not the saved one "
                      f"(and has the class its {rb.kind} imply)", note=f"{fmt}: tag {a} is a {wb.kind[:-1]} on both sides")
            if ok_kind:
                if ra is None or isinstance(ra, tuple):
                    ctx.undecided("C04-E1", rs, f"{fmt}: number of indices the importer keeps for a row tagged {a} not recognised", "")
                    continue
                ctx.check(ra == a and rb.spec.skip == wb.tag_fields, "C04-E1", rs,
                          f"{fmt}: a {wb.kind[:-1]} with {a} vertices is parsed with {ra} vertices after skipping {rb.spec.skip} token(s)",
                          f"the exporter writes {wb.tag_fields} length token then {a} indices",
                          note=f"{fmt}: tag {a}: {a} indices after {wb.tag_fields} tag token")
        if dropped:
            lab = ", ".join(map(str, dropped)) + (" (and more)" if dropped[-1] == TAG_DOMAIN[-1] else "")
            ctx.fail("C04-E1", site,
                     f"{fmt}: {wb.kind} with {lab} vertices are written (tag = len) but no importer branch reads those tags",
                     f"a {wb.kind[:-1]} with that many vertices is silently dropped on reload")


# --------------------------------------------------------------------------- header counts (off, tet)
def header_counts_writer(cx):
    """[(kind, leaf, token index in its line)] for every `len(mesh.K)` written outside the repetitions, in emission order;
    None when the head of the file is not understood"""
    out = []
    head = []
    cx.count_sel = {}
    for x in cx.tree:
        if isinstance(x, (em.Rep,)):
            break
        head.append(x)
    vs = em.variants(head)
    if vs is None or len(vs) != 1:
        return None
    for line in em.tokenize(vs[0][1]):
        for tok, tk in enumerate(line):
            if not isinstance(tk, em.Token):
                return None
            lf = tk.single_leaf()
            if lf is None:
                if tk.literal() is None:
                    return None
                continue
            e = cc.resolve(cx.b, lf.expr, at=cx.wfn.body[-1])
            terms = []

            def add_terms(x):
                if isinstance(x, ast.BinOp) and isinstance(x.op, ast.Add):
                    add_terms(x.left)
                    add_terms(x.right)
                else:
                    terms.append(x)
            e0 = lf.expr
            if isinstance(e0, ast.Name):
                d0 = cx.b.reaching(e0.id, cx.wfn.body[-1])
                e0 = d0 if d0 is not None else e0
            add_terms(e0 if isinstance(e0, (ast.BinOp, ast.Call)) else e)      # original nodes keep their scope for classification
            kinds_ = []
            for x in terms:
                k_ = None
                if isinstance(x, ast.Call) and isinstance(x.func, ast.Name) and x.func.id == "len" and len(x.args) == 1:
                    k_ = cx.prov.container_kind(x.args[0])
                    if k_ not in cc.KINDS:
                        info = cx.prov.rows_info(x.args[0], cx.wfn.body[-1])
                        k_ = info[0] if info else None
                        if info:
                            # the rows counted are a selection of the container: remember which one
                            sel = "?" if info[2] else None
                            for t_ in info[1]:
                                n_ = em._len_eq(t_, True, lambda e_: em._is_len_of(e_, cx.prov, k_, t_))
                                sel = n_ if n_ is not None and sel is None else "?"
                            cx.count_sel[k_] = sel
                kinds_.append(k_ if k_ in cc.KINDS else None)
            if kinds_ and all(kinds_):
                out.append((kinds_[0] if len(kinds_) == 1 else tuple(kinds_), lf, tok))
            else:
                out.append((None, lf, tok))
    return out


def header_counts_reader(fn, b):
    """[(name, kinds stored in the loop it bounds, statement, token position or None)] in consumption order"""
    names = []
    for st in au.stmts(fn.body):
        if not isinstance(st, ast.Assign) or len(st.targets) != 1:
            continue
        t, v = st.targets[0], st.value
        if isinstance(t, ast.Name) and isinstance(v, ast.Call) and isinstance(v.func, ast.Name) and v.func.id == "int" and len(v.args) == 1:
            pos = None
            if isinstance(v.args[0], ast.Subscript) and isinstance(au.const(v.args[0].slice), int):
                pos = au.const(v.args[0].slice)
            names.append((t.id, st, pos))
        elif isinstance(t, (ast.Tuple, ast.List)) and isinstance(v, (ast.GeneratorExp, ast.ListComp)) \
                and isinstance(v.elt, ast.Call) and isinstance(v.elt.func, ast.Name) and v.elt.func.id == "int":
            for i, x in enumerate(t.elts):
                if isinstance(x, ast.Name):
                    names.append((x.id, st, i))
    out = []
    for name, st, pos in names:
        kinds = set()
        for lp in au.stmts(fn.body):
            if isinstance(lp, ast.For) and isinstance(lp.iter, ast.Call) and au.call_tail(lp.iter) == "range" \
                    and len(lp.iter.args) == 1 and isinstance(lp.iter.args[0], ast.Name) and lp.iter.args[0].id == name:
                for c in au.calls(lp):
                    if isinstance(c.func, ast.Attribute) and c.func.attr in ("append", "extend"):
                        k = rd.container_of(c.func.value, b, c)
                        if k:
                            kinds.add(k)
        out.append((name, kinds, st, pos))
    return out


def h1_flat_header(cx, first_token_counts=False):
    ctx, fmt = cx.ctx, cx.fmt
    wc = header_counts_writer(cx)
    rc = [r for r in header_counts_reader(cx.rfn, cx.rb)]
    wsite, rsite = cx.ws(), cx.rs()
    used = [r for r in rc if r[1]]
    if not wc or not used or any(k is None for k, lf, tok in wc):
        ctx.undecided("C04-H1", wsite if not wc else rsite, f"{fmt}: header counts not recognised",
                      "the format starts with the number of vertices / elements")
        return
    rows = []
    for wb in cx.blocks:
        if wb.kind not in rows and not wb.outer_reps:
            rows.append(wb.kind)
    # the i-th count consumed by the importer is the i-th count written
    idx = {r[0]: i for i, r in enumerate(rc)}
    for name, kinds, st, pos in used:
        i = idx[name]
        if i >= len(wc):
            ctx.fail("C04-H1", rsite, f"{fmt}: the importer reads {i + 1} header counts, the exporter writes {len(wc)}", "")
            continue
        wk, lf, tok = wc[i]
        if pos is not None and isinstance(st.targets[0], ast.Name):
            ctx.check(pos == tok, "C04-H1", rsite,
                      f"{fmt}: header count #{i + 1} is read from token {pos} of its line, the exporter writes it as token {tok}",
                      "the number of rows to read is taken from the wrong token", note=f"{fmt}: count #{i + 1} token position agrees")
        mine = [wb.kind for wb in cx.blocks if wb.kind in kinds and not wb.outer_reps]
        wks = set(wk) if isinstance(wk, tuple) else {wk}
        ctx.check(wks <= kinds and (not mine or set(mine) == wks), "C04-H1", wsite,
                  f"{fmt}: header count #{i + 1} written is the number of {'/'.join(sorted(wks))} but the importer uses count #{i + 1} to read "
                  f"{'/'.join(sorted(kinds))}",
                  f"that count bounds the loop that reads {'/'.join(sorted(kinds))} rows; the exporter writes the number of "
                  f"{wk} there: rows are mis-assigned or the file is truncated on reload",
                  note=f"{fmt}: count #{i + 1} = number of {wk} on both sides")
    order = [k2 for k, lf, tok in wc for k2 in (k if isinstance(k, tuple) else (k,))]
    for k in rows:
        ctx.check(k in order, "C04-H1", wsite, f"{fmt}: rows of mesh.{k} are written but their number is not in the header",
                  "the importer reads exactly as many rows as the header announces")
    ctx.check([k for k in order if k in rows] == rows, "C04-H1", wsite,
              f"{fmt}: row blocks are written in order {rows} but announced in order {[k for k in order if k in rows]}",
              "the importer reads the blocks in header order")
    for wb in cx.blocks:
        if wb.outer_reps:
            continue
        if wb.other_guards:
            ctx.undecided("C04-H1", cx.ws(wb.write), f"{fmt}: {wb.kind} rows are selected by a condition the rule does not read", "")
        else:
            sel = cx.count_sel.get(wb.kind)
            if sel == "?":
                ctx.undecided("C04-H1", cx.ws(wb.write), f"{fmt}: the {wb.kind} rows counted in the header are selected in a way the rule does not read", "")
                continue
            ctx.check(wb.guard_n == sel and wb.via in ("loop", "range"), "C04-H1", cx.ws(wb.write),
                      f"{fmt}: the {wb.kind} rows written are not the ones the header counts"
                      if sel is not None else f"{fmt}: only some {wb.kind} rows are written while the header announces len(mesh.{wb.kind})",
                      "the importer reads exactly as many rows as the header announces")
    rorder = [sorted(kinds) for name, kinds, st, pos in used]
    # the blocks announced by one count are read by one loop of the importer
    groups = []
    for k, lf, tok in wc:
        ks = set(k) if isinstance(k, tuple) else {k}
        g_ = [r_ for r_ in rows if r_ in ks]
        if g_:
            groups.append(g_)
    ok = len(rorder) >= len(groups) and all(set(groups[i]) <= set(rorder[i]) for i in range(len(groups)))
    if not ok and len(used) < len(rc) and len(rorder) < len(groups):
        ctx.undecided("C04-H1", rsite, f"{fmt}: a header count of the importer bounds a loop the rule does not recognise", "")
    else:
        ctx.check(ok, "C04-H1", rsite, f"{fmt}: importer reads blocks {rorder}, exporter writes {rows}",
                  "blocks must be read in the order they are written")
    if first_token_counts:
        for kind, lf, tok in wc:
            kind = "/".join(kind) if isinstance(kind, tuple) else kind
            ctx.check(tok == 0, "C04-H1", cx.ws(lf.node), f"{fmt}: the number of {kind} is token #{tok} of its header line",
                      "the importer parses the first token of each header line as the count",
                      note=f"{fmt}: count of {kind} leads its header line")


def run_off(ctx):
    cx = Codec(ctx, "off")
    # magic line
    first = all_lines(cx.tree)[:1]
    magic_w = first[0][0].literal() if first and first[0] and isinstance(first[0][0], em.Token) else None
    magic_r = [x.value for x in au.walk(cx.rfn) if isinstance(x, ast.Constant) and isinstance(x.value, str) and x.value.isupper()]
    if magic_w is None or not magic_r:
        ctx.undecided("C04-E1", cx.ws(), "off: magic first line not recognised", "")
    else:
        ctx.check(magic_w in magic_r, "C04-E1", cx.ws(),
                  f"off: first line written `{magic_w}` is not the header the importer requires {magic_r[:1]}",
                  "the importer raises on a missing header", note="off: OFF magic line on both sides")
        # the importer must not raise on the header the exporter writes
        for rz in [n_ for n_ in au.walk(cx.rfn) if isinstance(n_, ast.Raise)]:
            gs = au.conditions(rz, toplevel=True)
            vals = []
            for t, pol in gs:
                t, pol = au.strip_not(t, pol)
                tr = cc.resolve(cx.rb, t, at=rz)
                hdr = [x for x in au.walk(tr) if isinstance(x, ast.Compare) and len(x.ops) == 1 and any(
                    isinstance(y, ast.Constant) and y.value in magic_r for y in (x.left, x.comparators[0]))]
                if len(hdr) == 1 and hdr[0] is tr:
                    other = tr.left if isinstance(tr.comparators[0], ast.Constant) else tr.comparators[0]
                    v = cc.eval_test(_TagSubst(au.norm(other)).visit(cc.clean(tr)), {"__tag": magic_w})
                    vals.append(None if v is None else (bool(v) == pol))
                else:
                    vals.append(None)
            if vals and all(v is True for v in vals):
                ctx.fail("C04-E1", cx.rs(rz), f"off: the importer raises on the header `{magic_w}` the exporter writes",
                         "no file saved by the exporter can be loaded")
    tagged_rules(cx)
    len_tagged_rules(cx, {"faces": 3, "cells": 4})
    h1_flat_header(cx)
    common_rules(cx)
    return cx


def run_tet(ctx):
    cx = Codec(ctx, "tet")
    tagged_rules(cx)
    len_tagged_rules(cx, {"cells": 4, "faces": 3})
    h1_flat_header(cx, first_token_counts=True)
    common_rules(cx)
    return cx


def run_xyz(ctx):
    cx = Codec(ctx, "xyz")
    ctx_, fmt = ctx, "xyz"
    rfn, rb_ = cx.rfn, cx.rb
    stage = [(c, rd.rowspec(c.args[0], rb_, c)) for c in au.calls(rfn)
             if au.call_tail(c) == "append" and isinstance(c.func.value, ast.Name) and len(c.args) == 1
             and rd.container_of(c.func.value, rb_, c) is None]
    for wb in cx.blocks:
        if wb.unknown or wb.kind != "vertices":
            continue
        extra = len(wb.others)
        if extra and isinstance(wb.fields, int):
            subs = [lf.expr for lf in wb.others]
            if all(isinstance(e_, ast.Subscript) and isinstance(e_.value, ast.Name) and isinstance(au.const(e_.slice), int) for e_ in subs) \
                    and len({e_.value.id for e_ in subs}) == 1:
                order_ = [au.const(e_.slice) for e_ in subs]
                ctx.check(order_ == list(range(extra)), "C04-E1", cx.ws(wb.write),
                          f"xyz: the values written after the coordinates are components {order_} of the normal instead of {list(range(extra))}",
                          "the importer stores tokens 3..5 as the x, y, z of the normal", note="xyz: normal written in component order")
            ok = any(rs.ok and rs.skip == wb.fields and rs.arity in (("const", extra), ("rest",)) for c, rs in stage)
            related = [rs for c, rs in stage if rs.ok and rs.arity is not None and rs.arity[0] == "const" and rs.skip is not None and rs.skip > 0]
            for c, rs in stage:
                if rs.ok and rs.skip == wb.fields:
                    for test, pol in au.guards(c):
                        lens = [x for x in au.walk(test) if isinstance(x, ast.Call) and isinstance(x.func, ast.Name) and x.func.id == "len"]
                        if len(lens) == 1:
                            v = cc.eval_test(_TagSubst(au.norm(lens[0])).visit(cc.clean(test)), {"__tag": wb.fields + extra})
                            if v is not None:
                                ctx.check(bool(v) == pol, "C04-E1", cx.rs(c),
                                          f"xyz: a line of {wb.fields + extra} values (point and normal) does not pass the importer's test "
                                          f"for lines carrying a normal", f"a line with {wb.fields + extra} tokens is not read as point + normal",
                                          note=f"xyz: {wb.fields + extra}-token lines are read as point + normal")
            if not ok and not related:
                ctx.undecided("C04-E1", cx.rs(), "xyz: reading of the values that follow the coordinates not recognised", "")
            else:
                ctx.check(ok, "C04-E1", cx.ws(wb.write),
                          f"xyz: {extra} extra value(s) are written after the {wb.fields} coordinates but the importer does not read "
                          f"tokens [{wb.fields}:{wb.fields + extra}] back", "normals written next to the points are lost or mis-sliced",
                          note=f"xyz: normals = tokens [{wb.fields}:{wb.fields + extra}] on both sides")
    rbs = [rb for rb in cx.rblocks if rb.kind == "vertices" and rb.spec.ok]
    for wb in cx.blocks:
        if not rbs or wb.unknown or wb.kind != "vertices":
            continue
        rb = rbs[0]
        wa = 3 if wb.fields == "all" else wb.fields
        ra = reader_arity(rb)
        if ra == "rest":
            ra = wa if not wb.others else "rest"
        ctx.check(ra == wa and rb.spec.skip == 0, "C04-E1", cx.rs(rb.node),
                  f"xyz: {wa} coordinates are written per point, the importer keeps {ra} after skipping {rb.spec.skip}",
                  "", note="xyz: 3 coordinates per point on both sides")
    common_rules(cx, index=False)
    return cx


# =========================================================================== C04-C1 emission conditions
VOCAB = {"obj": ("vertices", "edges", "faces"), "medit": ("vertices", "edges", "faces", "cells"),
         "geogram": ("vertices", "edges", "faces", "cells"), "off": ("vertices", "faces"), "tet": ("vertices", "cells"),
         "xyz": ("vertices",)}
MESHDATA = "mesh.mesh_data"


def regeneration_model(ctx):
    """What `RawMeshData.prepare()` rebuilds on load: {'edges': switch, 'faces': switch} (config attributes guarding the completion
    calls) and the name of the attribute flagging the edges declared before completion; None (undecided) when not recognised."""
    repo = ctx.repo
    fn0 = repo.func(MESHDATA, "RawMeshData.prepare")
    site = ctx.site(MESHDATA, fn0)
    fn = hc_flat.flat(repo, MESHDATA, fn0)
    sw = {}
    for c in au.calls(fn):
        t = au.call_tail(c)
        for kind, callee in (("edges", "_complete_edges_from_faces"), ("faces", "_complete_faces_from_cells")):
            if t == callee:
                gs = [(g, pol) for g, pol in au.guards(c) if "_prepared" not in au.src(g)]
                if len(gs) == 1 and gs[0][1] and isinstance(gs[0][0], ast.Attribute) and isinstance(gs[0][0].value, ast.Name):
                    sw[kind] = gs[0][0].attr
    flag, early = None, False
    if repo.has_func(MESHDATA, "RawMeshData._complete_edges_from_faces"):
        cf = repo.func(MESHDATA, "RawMeshData._complete_edges_from_faces")
        for c in au.calls(cf):
            if au.call_tail(c) == "create_attribute" and c.args and isinstance(c.args[0], ast.Constant) \
                    and isinstance(c.func.value, ast.Attribute) and c.func.value.attr == "edges":
                flag = c.args[0].value
        early = any(isinstance(st, ast.If) and "faces.empty()" in au.src(st.test) and any(isinstance(x, ast.Return) for x in st.body)
                    for st in cf.body)
    ok = set(sw) == {"edges", "faces"} and flag is not None and early
    if not ok:
        ctx.undecided("C04-C1", site, "prepare(): completion of edges from faces / faces from cells under one config switch each, "
                      "declared edges flagged: not recognised", f"switches {sw}, flag attribute {flag}, no-face early exit {early}")
        return None
    ctx.ok("C04-C1", site, f"load regenerates edges under config.{sw.get('edges')}, faces under config.{sw.get('faces')}; declared "
           f"edges flagged '{flag}'")
    return sw, flag


class _State:
    def __init__(self, D, CE, CF, kind):
        self.D, self.CE, self.CF, self.kind = D, CE, CF, kind
        # the attribute flagging the declared edges is created by the completion of edges from faces (dimension >= 2, switch on);
        # in the other states it may or may not be there (set by the user, or left on the edges of a surface whose faces were
        # stripped by ignore_elements): both cases are examined
        self.H = True if (D >= 2 and CE) else None
        self.free_H = not (D >= 2 and CE)

    def nonempty(self, k):
        if k == self.kind or k == "vertices":
            return True
        if k == "edges":
            return True if self.D == 1 else (False if self.D == 0 else None)
        if k == "faces":
            return True if self.D == 2 else (False if self.D < 2 else (True if self.CF else None))
        if k == "cells":
            return self.D == 3
        return None

    def __str__(self):
        return f"dimensionality {self.D}, complete_edges_from_faces={self.CE}, complete_faces_from_cells={self.CF}" + \
            (f", declared-edge attribute {'present' if self.H else 'absent'}" if self.free_H and self.H is not None else "")


def _and3(vals):
    if any(v is False for v in vals):
        return False
    return None if any(v is None for v in vals) else True


def _or3(vals):
    if any(v is True for v in vals):
        return True
    return None if any(v is None for v in vals) else False


def eval_emission(test, st, prov, b, model, at, depth=0):
    """Three-valued value (True / False / None = does not depend on the modelled state) of an exporter condition in state `st`."""
    sw, flag = model
    mesh = prov.mesh
    if depth > 6:
        return None
    if isinstance(test, ast.Constant):
        return bool(test.value)
    if isinstance(test, ast.BoolOp):
        vals = [eval_emission(v, st, prov, b, model, at, depth + 1) for v in test.values]
        return _and3(vals) if isinstance(test.op, ast.And) else _or3(vals)
    if isinstance(test, ast.UnaryOp) and isinstance(test.op, ast.Not):
        v = eval_emission(test.operand, st, prov, b, model, at, depth + 1)
        return None if v is None else (not v)
    if isinstance(test, ast.Name):
        d = b.reaching(test.id, at)
        return eval_emission(d, st, prov, b, model, getattr(b, "_last_def_stmt", at), depth + 1) if d is not None else None
    if isinstance(test, ast.Attribute) and isinstance(test.value, ast.Name) and test.value.id != mesh:
        if test.attr == sw["edges"]:
            return st.CE
        if test.attr == sw["faces"]:
            return st.CF
        if test.attr.startswith("export"):
            return True
        return None
    if isinstance(test, ast.Call):
        t = au.call_tail(test)
        if t == "hasattr" and len(test.args) == 2 and isinstance(test.args[0], ast.Name) and test.args[0].id == mesh \
                and isinstance(test.args[1], ast.Constant) and test.args[1].value in cc.KINDS:
            return True
        if t == "empty" and isinstance(test.func, ast.Attribute) and prov.container_kind(test.func.value) in cc.KINDS:
            v = st.nonempty(prov.container_kind(test.func.value))
            return None if v is None else (not v)
        if t == "has_attribute" and test.args and isinstance(test.args[0], ast.Constant) \
                and isinstance(test.func, ast.Attribute) and prov.container_kind(test.func.value) == "edges":
            return st.H if test.args[0].value == flag else None
        if t in ("len", "bool") and len(test.args) == 1 and prov.container_kind(test.args[0]) in cc.KINDS:
            return st.nonempty(prov.container_kind(test.args[0]))
        return None
    if isinstance(test, ast.Attribute) and prov.container_kind(test) in cc.KINDS:
        return st.nonempty(prov.container_kind(test))          # truthiness of a container
    if isinstance(test, ast.Compare):
        def val(x):
            if isinstance(x, ast.Attribute) and x.attr == "dimensionality" and isinstance(x.value, ast.Name) and x.value.id == mesh:
                return st.D
            if isinstance(x, ast.Call) and isinstance(x.func, ast.Name) and x.func.id == "len" and len(x.args) == 1 \
                    and prov.container_kind(x.args[0]) in cc.KINDS:
                v = st.nonempty(prov.container_kind(x.args[0]))
                return None if v is None else ("len", v)
            if isinstance(x, ast.Name):
                d = b.reaching(x.id, at)
                return val(d) if d is not None else None
            c = au.const(x)
            return c if isinstance(c, (int, float)) and not isinstance(c, bool) else None
        vals = [val(test.left)] + [val(c) for c in test.comparators]
        if any(v is None for v in vals):
            return None
        out = True
        for (l, r), op in zip(zip(vals, vals[1:]), test.ops):
            if isinstance(l, tuple) or isinstance(r, tuple):
                if isinstance(l, tuple) and r in (0, 1) and isinstance(op, (ast.Gt, ast.NotEq, ast.GtE, ast.Eq, ast.Lt, ast.LtE)):
                    ne = l[1]
                    res = {ast.Gt: ne if r == 0 else None, ast.NotEq: ne if r == 0 else None,
                           ast.GtE: ne if r == 1 else (True if r == 0 else None), ast.Eq: (not ne) if r == 0 else None,
                           ast.Lt: (not ne) if r == 1 else None, ast.LtE: (not ne) if r == 0 else None}[type(op)]
                    if res is None:
                        return None
                    out = out and res
                    continue
                return None
            f = {ast.Eq: lambda a_, b_: a_ == b_, ast.NotEq: lambda a_, b_: a_ != b_, ast.Lt: lambda a_, b_: a_ < b_,
                 ast.LtE: lambda a_, b_: a_ <= b_, ast.Gt: lambda a_, b_: a_ > b_, ast.GtE: lambda a_, b_: a_ >= b_}.get(type(op))
            if f is None:
                return None
            out = out and f(l, r)
        return out
    return None


def _attribute_presence(e):
    """a condition made only of attribute look-ups (`c.has_attribute('x')`, `c.get_attribute('x').empty()`), and / or / not"""
    if isinstance(e, ast.BoolOp):
        return all(_attribute_presence(v) for v in e.values)
    if isinstance(e, ast.UnaryOp) and isinstance(e.op, ast.Not):
        return _attribute_presence(e.operand)
    if isinstance(e, ast.Call) and isinstance(e.func, ast.Attribute):
        if e.func.attr == "has_attribute":
            return True
        if e.func.attr == "empty" and isinstance(e.func.value, ast.Call) and au.call_tail(e.func.value) == "get_attribute":
            return True
    return False


def required_level(kind, st):
    if kind == "vertices":
        return "all"
    if kind == "edges":
        if st.D == 0:
            return None
        if st.D == 1 or not st.CE:
            return "all"
        return "declared"
    if kind == "faces":
        if st.D < 2:
            return None
        return "all" if (st.D == 2 or not st.CF) else None
    if kind == "cells":
        return "all" if st.D == 3 else None
    return None


def block_level(cx, wb, flag):
    """which rows of the container a block writes: all | declared | some (a recognised strict subset) | unknown"""
    if wb.other_guards or wb.rep.ifs and wb.guard_n is None:
        return "unknown"
    if wb.via == "loop":
        return "all"
    if wb.via == "slice":
        return "some"
    it0 = getattr(wb.rep, "ids_iter", None)
    it0 = it0 if it0 is not None else cc.strip_enumerate(wb.rep.iter)[0]
    it = cc.resolve(cx.b, it0, at=it0 if au.parent(it0) is not None else wb.rep.node)
    if wb.via == "range":
        a = it.args[0] if isinstance(it, ast.Call) and len(it.args) == 1 else None
        if isinstance(a, ast.Call) and isinstance(a.func, ast.Name) and a.func.id == "len" and len(a.args) == 1 \
                and cx.prov.container_kind(a.args[0]) == wb.kind:
            return "all"
        return "unknown"
    if wb.via == "index":
        if isinstance(it, ast.Call) and au.call_tail(it) == "get_attribute" and it.args and isinstance(it.args[0], ast.Constant):
            return "declared" if it.args[0].value == flag else "some"
        return "unknown"
    return "unknown"


def c1_emission(cx, model):
    ctx, fmt = cx.ctx, cx.fmt
    sw, flag = model
    site = cx.ws()
    for kind in VOCAB[fmt]:
        blocks = [wb for wb in cx.blocks if wb.kind == kind and not wb.outer_reps and (wb.fields != 0 or wb.unknown)]
        if not blocks:
            if cx.writer_understood(kind):
                ctx.fail("C04-C1", site, f"{fmt}: no loop writes the {kind} of the mesh",
                         f"the {fmt} format can express {kind}; a saved mesh reloads without them")
            else:
                ctx.undecided("C04-C1", site, f"{fmt}: the loop writing the {kind} of the mesh is not recognised", "")
            continue
        bad, unsure, bad_partial, bad_assign = None, None, None, {}
        for D in (0, 1, 2, 3):
            for CE in (True, False):
                for CF, Hf in itertools.product((True, False), (True, False)):
                    st = _State(D, CE, CF, kind)
                    if st.free_H:
                        st.H = Hf
                    elif not Hf:
                        continue
                    need = required_level(kind, st)
                    if need is None:
                        continue
                    # conditions on the presence of an attribute (normals, texture coordinates ..) are independent of the rows:
                    # the blocks must cover both outcomes
                    atoms = []
                    for wb in blocks:
                        for t, pol in wb.conds:
                            if eval_emission(t, st, cx.prov, cx.b, model, wb.rep.node) is None:
                                t2, _p = au.strip_not(t, True)
                                tr = cc.resolve(cx.b, t2, at=t2 if au.parent(t2) is not None else wb.rep.node)
                                if _attribute_presence(tr) and au.src(t2) not in atoms:
                                    atoms.append(au.src(t2))
                    atoms = atoms[:3]
                    for vals in itertools.product((True, False), repeat=len(atoms)):
                        assign = dict(zip(atoms, vals))
                        got, maybe, partial = None, False, None
                        for wb in blocks:
                            rs_ = []
                            for t, pol in wb.conds:
                                v = eval_emission(t, st, cx.prov, cx.b, model, wb.rep.node)
                                if v is None:
                                    t2, p2 = au.strip_not(t, True)
                                    if au.src(t2) in assign:
                                        v = assign[au.src(t2)] if p2 else not assign[au.src(t2)]
                                rs_.append(None if v is None else (v == pol))
                            runs = _and3(rs_ or [True])
                            if runs is False:
                                continue
                            level = block_level(cx, wb, flag)
                            if level == "all" or (level == "declared" and need == "declared"):
                                got = level
                                break
                            if level == "unknown":
                                maybe = True
                            else:
                                partial = (level, wb.via)
                        if got is None:
                            if maybe:
                                unsure = unsure or st
                            elif bad is None:
                                bad, bad_partial = st, partial
                                bad_assign = assign
        if bad is not None:
            flag_true = bad.free_H and bad.H
            construct = f"{fmt}: the conditions under which {kind} are written do not cover every mesh whose {kind} a load cannot regenerate"
            if kind == "edges" and bad_partial and bad_partial[0] == "declared" and flag_true:
                construct = (f"{fmt}: only the edges flagged '{flag}' are written whenever that attribute exists, also when a load will not "
                             f"regenerate the others (dimension 1 / edge completion off)")
            ctx.fail("C04-C1", site, construct,
                     f"with {bad}{''.join(' and `' + k + '` ' + ('true' if v else 'false') for k, v in bad_assign.items())}: a load regenerates edges only under config.{sw['edges']} (as face sides) and faces only under "
                     f"config.{sw['faces']} (as cell sides), so {'every edge' if required_level(kind, bad) == 'all' else 'the declared ' + kind} "
                     f"must be in the file, but " + ("no block writing them runs in that state" if bad_partial is None else
                                                    f"the block that runs there writes only {'the declared (flagged) ones' if bad_partial[0] == 'declared' else 'a positional slice / subset of the container'}")
                     + ": they vanish on reload")
        elif unsure is not None:
            ctx.undecided("C04-C1", site, f"{fmt}: the rows of mesh.{kind} are selected in a way the rule does not read", f"with {unsure}")
        else:
            ctx.ok("C04-C1", site, f"{fmt}: {kind} written in every state where a load would not rebuild them")
