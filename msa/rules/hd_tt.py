"""hd_tt - decision tables over the atomic conditions of paths (hd_sx).

The atoms of a set of paths are split in groups that share operands; the truth assignments of a group of comparisons that are
jointly *feasible* are found by evaluating the comparisons under every ordering of their operands (msa.order), the other atoms
(calls, membership tests ...) are free booleans.  A rule can then ask: under every feasible assignment, which path is taken by
function A, which by function B, and do they agree - independently of how the two decisions are written."""
from __future__ import annotations
import ast, itertools
from .. import au, order


class TooBig(Exception):
    pass


def key(atom):
    return au.canon_test(atom, True)


def _terms(atom):
    """operand texts of a comparison atom that the ordering domain can decide, else None"""
    if isinstance(atom, ast.Compare) and len(atom.ops) == 1 and type(atom.ops[0]) in order.CMP:
        return [atom.left, atom.comparators[0]]
    return None


def _sym(n):
    return au.src(n)


class Table:
    def __init__(self, atoms, env_ok=None, max_group=4, extra_consts=()):
        """atoms: iterable of atom ASTs (any polarity stripped);  env_ok(env) filters numeric environments (symbol text -> value)"""
        self.atoms = {}
        for a in atoms:
            a, _ = au.strip_not(a, True)
            self.atoms.setdefault(key(a), a)
        self.env_ok = env_ok
        # groups of comparison atoms connected by shared symbols
        parent = {}

        def find(x):
            while parent.setdefault(x, x) != x:
                parent[x] = parent[parent[x]]
                x = parent[x]
            return x
        self.cmp, self.free = {}, []
        for k, a in self.atoms.items():
            ts = _terms(a)
            if ts is None:
                self.free.append(k)
                continue
            syms = [_sym(t) for t in ts if order.fold_const(t) is None and not (isinstance(t, ast.UnaryOp) and order.fold_const(t.operand) is not None)]
            self.cmp[k] = syms
            for s in syms[1:]:
                parent[find(s)] = find(syms[0])
            if syms:
                find(syms[0])
        groups = {}
        for k, syms in self.cmp.items():
            g = find(syms[0]) if syms else "<const>"
            groups.setdefault(g, []).append(k)
        self.groups = []
        for g, ks in groups.items():
            pred = order.Pred(_sym)
            for k in ks:
                pred.collect(self.atoms[k])
            pred.consts.update(extra_consts)
            if len(pred.symbols) > max_group:
                raise TooBig(f"{len(pred.symbols)} operands compared with each other")
            rows = set()
            for env in order.envs(pred.symbols, pred.consts):
                if env_ok is not None and not env_ok(env):
                    continue
                rows.add(tuple(bool(pred.eval(self.atoms[k], env)) for k in ks))
            self.groups.append((ks, sorted(rows)))
        if len(self.free) > 10:
            raise TooBig(f"{len(self.free)} free conditions")

    def assignments(self):
        spaces = [[dict(zip(ks, r)) for r in rows] for ks, rows in self.groups]
        spaces += [[{k: False}, {k: True}] for k in self.free]
        n = 1
        for s in spaces:
            n *= max(1, len(s))
        if n > 200000:
            raise TooBig(f"{n} assignments")
        for combo in itertools.product(*spaces):
            env = {}
            for d in combo:
                env.update(d)
            yield env

    @staticmethod
    def consistent(conds, assignment):
        for t, pol in conds:
            t, pol = au.strip_not(t, pol)
            if assignment.get(key(t)) != pol:
                return False
        return True


def describe(assignment, only=None):
    parts = []
    for k, v in sorted(assignment.items()):
        if only is not None and k not in only:
            continue
        parts.append(k if v else f"not ({k})")
    return " and ".join(parts)
