"""Bounded symbolic evaluation of extracted function ASTs (used by the C02 / C13 rules).

Nothing of mouette is imported or run.  The syntax tree of a function (as parsed by the MSA loader) is evaluated over a small
abstract domain: vertex indices are *named symbols* (A, B, C ... with a fixed relative order), the number of vertices is the
symbol NV, positions are symbols p(A), arithmetic on symbols gives polynomials (msa.sym.Poly), containers of the template
mesh hold one or two template elements.  Helper functions, nested functions, generators, comprehensions, module level
constant tables and the classes of the analysed modules are followed through their own syntax trees, so that the result does
not depend on how the code is spelled.  A rule states its obligation on the *result* of the evaluation (the final template
mesh) instead of on the layout of the code.

  Unknown   the evaluator met a construct it does not model -> the rule reports `undecided`
  Raised    the evaluated code raises (KeyError of a dict lookup, explicit raise, ...)
Conditions that cannot be decided on the template are explored both ways (`explore`)."""
from __future__ import annotations
import ast, itertools, functools, threading
from fractions import Fraction
from .. import au
from ..sym import Poly
from ..core import AnalysisError

PKG = "mouette"
try:
    threading.stack_size(64 * 1024 * 1024)      # generator bodies are evaluated in threads of their own (GenThread)
except (ValueError, RuntimeError):
    pass


def _poly_eq(self, o):
    """Poly.__eq__ that answers False (instead of raising) for operands that are not numbers"""
    if isinstance(o, Poly):
        return self.t == o.t
    if isinstance(o, Sym):
        return self.t == {(o.name,): 1}
    if isinstance(o, (int, Fraction)) and not isinstance(o, bool):
        return self.t == Poly.const(o).t
    return False


Poly.__eq__ = _poly_eq


class Unknown(Exception):
    """construct outside the modelled subset"""


class Raised(Exception):
    def __init__(self, value, node=None):
        super().__init__(repr(value))
        self.value, self.node = value, node


class _Return(Exception):
    def __init__(self, v):
        self.v = v


class _Break(Exception):
    pass


class _Continue(Exception):
    pass


# ------------------------------------------------------------------------------------------------ values
class Sym:
    """named atom.  kind: 'vertex' (an index in [0, NV), carries a rank fixing the relative order), 'count' (NV: > every
    vertex symbol), 'pos' (a position), 'opaque'"""
    __slots__ = ("name", "kind", "rank")

    def __init__(self, name, kind="opaque", rank=None):
        self.name, self.kind, self.rank = name, kind, rank

    def __repr__(self):
        return self.name

    def __eq__(self, o):
        return isinstance(o, Sym) and o.name == self.name

    def __hash__(self):
        return hash(("Sym", self.name))


class Opaque:
    """result of something outside the model (numpy call, unknown attribute): a structural term"""
    __slots__ = ("term", "pytype")

    def __init__(self, term, pytype=None):
        self.term, self.pytype = term, pytype

    def __repr__(self):
        return "<%s>" % (self.term,)

    def __eq__(self, o):
        return isinstance(o, Opaque) and o.term == self.term

    def __hash__(self):
        return hash(("Opaque", self.term))


def term_of(v):
    """hashable structural description of a value (for Opaque terms and path conditions)"""
    if isinstance(v, Opaque):
        return v.term
    if isinstance(v, (Sym, Poly)):
        return repr(v)
    if isinstance(v, (list, tuple)):
        return tuple(term_of(x) for x in v)
    if isinstance(v, Obj):
        return "obj:%s#%d" % (v.cls.name, v.oid)
    if isinstance(v, (int, float, str, bool, Fraction)) or v is None:
        return v
    return repr(v)


class Obj:
    """instance of a class of the analysed package"""
    _n = 0

    def __init__(self, cls, fields=None):
        self.cls = cls
        self.fields = fields if fields is not None else {}
        Obj._n += 1
        self.oid = Obj._n

    def __repr__(self):
        return "<%s #%d>" % (self.cls.name, self.oid)


class ClassVal:
    def __init__(self, modname, node):
        self.modname, self.node, self.name = modname, node, node.name

    def __repr__(self):
        return "<class %s>" % self.name

    def __eq__(self, o):
        return isinstance(o, ClassVal) and o.node is self.node

    def __hash__(self):
        return hash(("ClassVal", id(self.node)))


class FuncVal:
    def __init__(self, modname, node, closure=None, bound=None, cls=None, defaults=None):
        self.modname, self.node, self.closure, self.bound, self.cls = modname, node, closure, bound, cls
        self.name = getattr(node, "name", "<lambda>")
        self.defaults = defaults          # {parameter name: value} evaluated when the function was defined (nested functions / lambdas)

    def __repr__(self):
        return "<function %s>" % self.name


class ModVal:
    def __init__(self, name):
        self.name = name

    def __repr__(self):
        return "<module %s>" % self.name


class ExtVal:
    """something imported from outside the package (numpy, typing, copy ...)"""
    def __init__(self, dotted):
        self.dotted = dotted

    def __repr__(self):
        return "<external %s>" % self.dotted


class Native:
    """python-implemented callable of the model (builtins, list methods, hooks)"""
    def __init__(self, name, fn):
        self.name, self.fn = name, fn

    def __repr__(self):
        return "<native %s>" % self.name


class SList(list):
    """the lists of the evaluated code.  A list may start with a symbolic part: `base` unknown elements (elem(i) names the i-th);
    the python list itself holds the concrete elements that follow (`items`)."""
    def __init__(self, base=0, elem=None, items=None, name="seq"):
        list.__init__(self, items or [])
        self.base, self.elem, self.name = base, elem, name

    @property
    def items(self):
        return self

    @items.setter
    def items(self, v):
        self[:] = list(v)

    def symbolic(self):
        return not (isinstance(self.base, int) and self.base == 0)

    def copy(self):
        return SList(self.base, self.elem, list(self), self.name)

    def __repr__(self):
        return "<%s[%s] + %s>" % (self.name, self.base, list.__repr__(self)) if self.symbolic() else list.__repr__(self)

    __hash__ = None


def symlist(v):
    return isinstance(v, SList) and v.symbolic()


class Model:
    """base of value models defined outside this module (e.g. the small array model): the evaluator defers to these methods"""
    def hb_getattr(self, ev, name):
        raise Unknown("attribute `%s` of %r" % (name, self))

    def hb_getitem(self, ev, k):
        raise Unknown("subscript of %r" % (self,))

    def hb_iter(self, ev):
        raise Unknown("iteration over %r" % (self,))

    def hb_len(self, ev):
        raise Unknown("len of %r" % (self,))

    def hb_compare(self, ev, op, other, reflected):
        raise Unknown("comparison of %r" % (self,))

    def hb_arith(self, ev, op, other, reflected):
        raise Unknown("arithmetic on %r" % (self,))

    def hb_truth(self, ev):
        raise Unknown("truth value of %r" % (self,))


class _GenClose(BaseException):
    pass


class GenThread:
    """a generator of the evaluated code, run lazily: its body is evaluated in a thread of its own that advances only while the
    consumer waits in next() (the two never run at the same time), so that side effects interleave as in python"""
    def __init__(self, ev, run):
        self.ev, self.run = ev, run
        self.to_gen, self.to_main = threading.Semaphore(0), threading.Semaphore(0)
        self.value, self.done, self.exc, self.started = None, False, None, False
        self.closing, self.throw_exc = False, None
        ev.gens.append(self)

    def _body(self):
        self.to_gen.acquire()
        try:
            if not self.closing:
                self.run(self)
        except _GenClose:
            pass
        except BaseException as e:      # Raised / Unknown / internal errors travel to the consumer
            self.exc = e
        self.done = True
        self.to_main.release()

    def yield_(self, v):
        self.value = v
        self.to_main.release()
        self.to_gen.acquire()
        if self.closing:
            raise _GenClose()
        if self.throw_exc is not None:
            e, self.throw_exc = self.throw_exc, None
            raise e

    def __iter__(self):
        return self

    def __next__(self):
        if self.done:
            raise StopIteration
        if not self.started:
            self.started = True
            t = threading.Thread(target=self._body, daemon=True)
            t.start()
        self.to_gen.release()
        self.to_main.acquire()
        if self.done:
            if self.exc is not None:
                e, self.exc = self.exc, None
                raise e
            raise StopIteration
        return self.value

    def throw(self, e):
        """raise e inside the generator at its current yield; returns normally if the generator yields again, StopIteration if it ends"""
        if self.done or not self.started:
            self.done = True
            raise e
        self.throw_exc = e
        return self.__next__()

    def close(self):
        if self.started and not self.done:
            self.closing = True
            self.to_gen.release()
            self.to_main.acquire()
        self.done = True


class CtxGen:
    """result of calling a @contextmanager function"""
    def __init__(self, gen):
        self.gen = gen


class PropVal:
    """property(fget) built at run time (property factories)"""
    def __init__(self, fget):
        self.fget = fget


class LazyIter:
    """a possibly infinite iterator of the evaluated code (itertools.cycle / count ...), consumed on demand"""
    def __init__(self, it):
        self.it = it


class LiveIter:
    """iterator over a list that is read while the loop runs (python's list iterator sees elements appended during the loop)"""
    def __init__(self, lst):
        self.lst = lst


class AttrModel:
    """model of a (sparse) attribute: index -> value"""
    def __init__(self, typ=None, elemsize=1, data=None):
        self.type, self.elemsize, self.data = typ, elemsize, dict(data or {})

    def __repr__(self):
        return "<attr %r>" % (self.data,)


# ------------------------------------------------------------------------------------------------ numbers
def is_num(v):
    return isinstance(v, (int, float, Fraction, Poly, Sym)) and not isinstance(v, bool) and not (isinstance(v, Sym) and v.kind in ("opaque",))


def to_poly(v):
    if isinstance(v, Poly):
        return v
    if isinstance(v, Sym):
        return Poly.atom(v.name)
    if isinstance(v, bool):
        return Poly.const(int(v))
    if isinstance(v, float):
        return Poly.const(Fraction(v).limit_denominator(10 ** 6))
    if isinstance(v, (int, Fraction)):
        return Poly.const(v)
    raise Unknown("not a number: %r" % (v,))


class Numbers:
    """symbol table + sign reasoning for polynomials over the symbols"""
    def __init__(self):
        self.syms = {}

    def sym(self, name, kind="opaque", rank=None):
        s = self.syms.get(name)
        if s is None:
            s = self.syms[name] = Sym(name, kind, rank)
        return s

    def norm(self, p):
        """Poly -> int / Fraction / Sym / Poly"""
        if not isinstance(p, Poly):
            return p
        if p.is_const():
            c = p.const_value()
            return int(c) if c.denominator == 1 else c
        if len(p.t) == 1:
            (k, c), = p.t.items()
            if len(k) == 1 and c == 1 and k[0] in self.syms:
                return self.syms[k[0]]
        return p

    def sign(self, v):
        """+1 / 0 / -1 when the sign of v is determined on every template instance, else None"""
        v = self.norm(v)
        if isinstance(v, bool):
            v = int(v)
        if isinstance(v, (int, float, Fraction)):
            return (v > 0) - (v < 0)
        p = to_poly(v)
        # linear in vertex / count symbols only
        lo = hi = p.const_value()
        verts = []
        ccoef = Fraction(0)
        for k, c in p.t.items():
            if k == ():
                continue
            if len(k) != 1 or k[0] not in self.syms:
                return None
            s = self.syms[k[0]]
            if s.kind == "vertex":
                verts.append((s, c))
            elif s.kind == "count":
                ccoef += c
            else:
                return None
        # difference of two vertex symbols: decided by the ranks
        if len(verts) == 2 and ccoef == 0 and lo == 0 and verts[0][1] == -verts[1][1] and abs(verts[0][1]) == 1:
            (a, ca), (b, cb) = verts
            if a.rank is not None and b.rank is not None and a.rank != b.rank:
                d = (a.rank - b.rank) * ca
                return (d > 0) - (d < 0)
            return None
        # bounds: 0 <= vertex <= NV - 1, NV >= number of vertex symbols (>= 1)
        nvmin = max(1, len([s for s in self.syms.values() if s.kind == "vertex"]))
        # minimise / maximise over vertices as functions c0 + c1*NV
        lo0, lo1, hi0, hi1 = lo, ccoef, hi, ccoef
        for s, c in verts:
            if c > 0:
                hi0, hi1 = hi0 - c, hi1 + c      # vertex <= NV - 1
            else:
                lo0, lo1 = lo0 - c, lo1 + c      # c<0: minimum at vertex = NV-1 : c*(NV-1)
        # lower bound positive for all NV >= nvmin ?
        if lo1 >= 0 and lo0 + lo1 * nvmin > 0:
            return 1
        if hi1 <= 0 and hi0 + hi1 * nvmin < 0:
            return -1
        if not verts and ccoef == 0:
            return (lo > 0) - (lo < 0)
        return None


# ------------------------------------------------------------------------------------------------ frames
class Frame:
    def __init__(self, modname, parent=None, fn=None):
        self.vars, self.modname, self.parent, self.fn = {}, modname, parent, fn
        self.cur = None
        self.globals_decl = set()
        self.yields = None


_MISSING = object()
EXC_NAMES = ("Exception", "ValueError", "KeyError", "TypeError", "IndexError", "AssertionError", "RuntimeError", "NotImplementedError",
             "StopIteration", "AttributeError", "BaseException", "LookupError", "ArithmeticError", "ZeroDivisionError", "OSError", "Warning",
             "UserWarning", "DeprecationWarning")

INTERPRET_MODULES = ("mouette.mesh.mesh_data", "mouette.mesh.data_container", "mouette.mesh.subdivision", "mouette.mesh.mesh",
                     "mouette.mesh.datatypes.base", "mouette.utils.iterators")
FOLLOW = ("mouette.mesh", "mouette.utils")
IDENTITY_CALLS = {"Vec", "asarray", "array"}


class Ev:
    """one evaluation run (one path): `decisions` answers the undetermined conditions in order"""

    def __init__(self, repo, hooks=None, decisions=(), nums=None, max_steps=400000, interpret=INTERPRET_MODULES):
        self.repo, self.hooks = repo, dict(hooks or {})
        self.decisions, self.asked = list(decisions), []
        self.cache = {}
        self.nums = nums or Numbers()
        self.steps, self.max_steps = 0, max_steps
        self.interpret = interpret
        self.log = []
        self.modconst = {}
        self.derived_terms, self.derived_asked = set(), []
        self.gens = []
        self.aborting = False
        self.suspects = []
        self._tl = threading.local()
        self.last_return = {}     # id(function node) -> statement that ended its last evaluation

    @property
    def frames(self):
        if not hasattr(self._tl, "frames"):
            self._tl.frames = []
        return self._tl.frames

    @property
    def depth(self):
        return getattr(self._tl, "depth", 0)

    @depth.setter
    def depth(self, v):
        self._tl.depth = v

    # ------------------------------------------------------------------ undetermined conditions
    def decide(self, key, node=None, free=False):
        if key in self.cache:
            return self.cache[key]
        i = len(self.asked)
        v = self.decisions[i] if i < len(self.decisions) else True
        self.asked.append((key, v))
        self.cache[key] = v
        if not free and self.is_derived(key):
            # the condition depends on the result of a computation the evaluator does not model: the path taken may not exist
            self.derived_asked.append(key)
        return v

    def is_derived(self, term):
        if isinstance(term, tuple):
            try:
                if term in self.derived_terms:
                    return True
            except TypeError:
                pass
            return any(self.is_derived(x) for x in term)
        return False

    def derived(self, term, pytype=None):
        """opaque result of a computation that is not modelled (external / not followed function)"""
        try:
            self.derived_terms.add(term)
        except TypeError:
            pass
        return Opaque(term, pytype)

    # ------------------------------------------------------------------ numbers
    def arith(self, op, a, b):
        if isinstance(a, Model):
            return a.hb_arith(self, op, b, False)
        if isinstance(b, Model):
            return b.hb_arith(self, op, a, True)
        if isinstance(a, Opaque) or isinstance(b, Opaque):
            return Opaque((type(op).__name__, term_of(a), term_of(b)))
        if isinstance(op, ast.Add):
            if isinstance(a, list) and isinstance(b, list):
                return self.concat(a, b)
            if isinstance(a, tuple) and isinstance(b, tuple):
                return a + b
            if isinstance(a, str) and isinstance(b, str):
                return a + b
        if isinstance(op, ast.Mult):
            for x, y in ((a, b), (b, a)):
                if isinstance(x, (list, tuple, str)):
                    n = self.nums.norm(y)
                    if isinstance(n, int):
                        if symlist(x):
                            raise Unknown("repetition of a symbolic list")
                        return SList(items=list(x) * n) if isinstance(x, list) else x * n
                    if isinstance(x, list) and len(x) == 1 and is_num(n) and not symlist(x):
                        return SList(n, (lambda i, _v=x[0]: _v), [], "rep")
                    raise Unknown("sequence repeated a symbolic number of times")
        if isinstance(op, ast.Mod) and isinstance(a, str):
            return Opaque(("fmt", a))
        if not (is_num(a) or isinstance(a, bool)) or not (is_num(b) or isinstance(b, bool)):
            raise Unknown("arithmetic on %r and %r" % (a, b))
        plain = not isinstance(a, (Poly, Sym)) and not isinstance(b, (Poly, Sym))
        if plain and (isinstance(a, float) or isinstance(b, float)):
            a = Fraction(a).limit_denominator(10 ** 6) if isinstance(a, float) else a
            b = Fraction(b).limit_denominator(10 ** 6) if isinstance(b, float) else b
        if isinstance(op, ast.Add):
            r = to_poly(a) + to_poly(b)
        elif isinstance(op, ast.Sub):
            r = to_poly(a) - to_poly(b)
        elif isinstance(op, ast.Mult):
            r = to_poly(a) * to_poly(b)
        elif isinstance(op, ast.Div):
            pb = to_poly(b)
            if not pb.is_const():
                raise Unknown("division by a symbolic value")
            if pb.const_value() == 0:
                raise Raised("ZeroDivisionError")
            r = to_poly(a).scale(1 / pb.const_value())
        elif isinstance(op, (ast.FloorDiv, ast.Mod)):
            pa, pb = to_poly(a), to_poly(b)
            if pa.is_const() and pb.is_const() and pa.const_value().denominator == 1 and pb.const_value().denominator == 1:
                if pb.const_value() == 0:
                    raise Raised("ZeroDivisionError")
                x, y = int(pa.const_value()), int(pb.const_value())
                return x // y if isinstance(op, ast.FloorDiv) else x % y
            raise Unknown("// or % on a symbolic value")
        elif isinstance(op, ast.Pow):
            pa, pb = to_poly(a), to_poly(b)
            if pb.is_const() and pb.const_value().denominator == 1 and 0 <= pb.const_value() <= 4:
                r = Poly.const(1)
                for _ in range(int(pb.const_value())):
                    r = r * pa
            else:
                raise Unknown("power")
        else:
            raise Unknown("operator %s" % type(op).__name__)
        return self.nums.norm(r)

    def concat(self, a, b):
        if not symlist(a) and not symlist(b):
            return SList(items=list(a) + list(b))
        if not symlist(a):
            if len(a):
                raise Unknown("concrete list followed by a symbolic one")
            return b.copy()
        if not symlist(b):
            return SList(a.base, a.elem, list(a) + list(b), a.name)
        if True:
            if self.nums.sign(b.base) == 0:
                return SList(a.base, a.elem, a.items + b.items, a.name)
            if not a.items and self.nums.sign(a.base) == 0:
                return b.copy()
            if a.items:
                raise Unknown("symbolic list appended after concrete items")
            la = a.base
            return SList(self.arith(ast.Add(), a.base, b.base),
                         (lambda i, _a=a, _b=b, _la=la: _a.elem(i) if self.nums.sign(self.arith(ast.Sub(), i, _la)) == -1
                          else _b.elem(self.arith(ast.Sub(), i, _la))), b.items, a.name)
        raise Unknown("concatenation of %r and %r" % (a, b))

    def compare(self, op, a, b, node=None):
        """truth value of `a op b` (may ask the decision oracle)"""
        if isinstance(op, (ast.Is, ast.IsNot)):
            if is_num(a) and is_num(b) and not isinstance(a, bool) and not isinstance(b, bool):
                # `x is y` on two numbers: the answer depends on the caching of small ints / on numpy scalars
                self.suspects.append(("identity comparison of two index values", node))
            if a is None or b is None or isinstance(a, bool) or isinstance(b, bool):
                if isinstance(a, Opaque) or isinstance(b, Opaque):
                    r = self.decide(("is", term_of(a), term_of(b)))
                else:
                    r = a is b
            elif isinstance(a, (Obj, list, dict, set, SList, AttrModel)) or isinstance(b, (Obj, list, dict, set, SList, AttrModel)):
                r = a is b
            else:
                r = self.equal(a, b)
            return r if isinstance(op, ast.Is) else not r
        if isinstance(op, (ast.Eq, ast.NotEq)):
            r = self.equal(a, b)
            return r if isinstance(op, ast.Eq) else not r
        if isinstance(op, (ast.In, ast.NotIn)):
            r = self.contains(b, a)
            return r if isinstance(op, ast.In) else not r
        # ordering
        if isinstance(a, Obj) or isinstance(b, Obj):
            names = {ast.Lt: ("__lt__", "__gt__"), ast.Gt: ("__gt__", "__lt__"), ast.LtE: ("__le__", "__ge__"), ast.GtE: ("__ge__", "__le__")}[type(op)]
            if isinstance(a, Obj) and not a.fields.get("__opaque__"):
                m = self.find_method(a, names[0])
                if m is not None:
                    return self.truth(self.call(m, [b], {}))
            if isinstance(b, Obj) and not b.fields.get("__opaque__"):
                m = self.find_method(b, names[1])
                if m is not None:
                    return self.truth(self.call(m, [a], {}))
            ka, kb = self.record_key(a), self.record_key(b)
            if ka is not None and (kb is not None or isinstance(b, tuple)) and ("__tuple__" in a.fields or a.fields.get("__order__")):
                return self.compare(op, ka, kb if kb is not None else b)
            raise Unknown("ordering comparison of objects %r and %r" % (a, b))
        if isinstance(a, Opaque) or isinstance(b, Opaque):
            ta, tb = term_of(a), term_of(b)
            # the same (unmodelled) measurement taken on two different groups of template elements can compare either way
            sym = isinstance(ta, tuple) and isinstance(tb, tuple) and len(ta) > 2 and len(tb) > 2 and ta[0] == tb[0] == "call" \
                and ta[1] == tb[1] and ta[2] != tb[2]
            return self.decide(("cmp", type(op).__name__, ta, tb), free=sym)
        if isinstance(a, (tuple, list)) and isinstance(b, (tuple, list)):
            for x, y in zip(a, b):
                if not self.equal(x, y):
                    return self.compare(op, x, y)
            return self.compare(op, len(a), len(b))
        if isinstance(a, str) and isinstance(b, str):
            return {ast.Lt: a < b, ast.LtE: a <= b, ast.Gt: a > b, ast.GtE: a >= b}[type(op)]
        if not (is_num(a) or isinstance(a, bool)) or not (is_num(b) or isinstance(b, bool)):
            raise Unknown("ordering comparison of %r and %r" % (a, b))
        d = self.arith(ast.Sub(), a, b)
        s = self.nums.sign(d)
        if s is None:
            p = to_poly(d)
            # canonical sign of the difference so that a<b and b>a share one decision
            lead = sorted(p.t.items())[0][1]
            if lead < 0:
                p, flip = -p, True
            else:
                flip = False
            pos = self.decide(("pos", repr(p)))      # is p > 0 ?
            if pos:
                s = 1
            else:
                s = 0 if self.decide(("zero", repr(p))) else -1
            if flip:
                s = -s
        return {ast.Lt: s < 0, ast.LtE: s <= 0, ast.Gt: s > 0, ast.GtE: s >= 0}[type(op)]

    def record_key(self, o):
        """tuple of the fields of a record object (NamedTuple / dataclass), else None"""
        if isinstance(o, Obj):
            if "__tuple__" in o.fields:
                return tuple(o.fields[n] for n in o.fields["__tuple__"])
            if "__fields__" in o.fields:
                return tuple(o.fields[n] for n in o.fields["__fields__"])
        return None

    def equal(self, a, b):
        if a is b:
            return True
        for x, y in ((a, b), (b, a)):
            if isinstance(x, Obj) and not x.fields.get("__opaque__"):
                m = self.find_method(x, "__eq__")
                if m is not None:
                    r = self.call(m, [y], {})
                    if not (isinstance(r, Opaque) and r.term == ("NotImplemented",)):
                        return self.truth(r)
                    continue
                kx = self.record_key(x)
                if kx is not None:
                    if "__tuple__" in x.fields and isinstance(y, tuple):
                        return self.equal(kx, y)
                    ky = self.record_key(y)
                    return ky is not None and x.cls.node is y.cls.node and self.equal(kx, ky)
        if isinstance(a, Opaque) or isinstance(b, Opaque):
            if isinstance(a, Opaque) and isinstance(b, Opaque) and a.term == b.term:
                return True
            return self.decide(("eq",) + tuple(sorted([repr(term_of(a)), repr(term_of(b))])))
        if symlist(a) or symlist(b):
            return a is b
        if isinstance(a, (tuple, list)) and isinstance(b, (tuple, list)):
            if isinstance(a, tuple) != isinstance(b, tuple) or len(a) != len(b):
                return False
            return all(self.equal(x, y) for x, y in zip(a, b))
        if (is_num(a) or isinstance(a, bool)) and (is_num(b) or isinstance(b, bool)):
            if isinstance(a, Sym) and isinstance(b, Sym) and a.kind == b.kind == "pos":
                return a.name == b.name
            d = self.arith(ast.Sub(), a, b)
            s = self.nums.sign(d)
            if s is not None:
                return s == 0
            p = to_poly(d)
            if sorted(p.t.items())[0][1] < 0:
                p = -p
            return self.decide(("zero", repr(p)))
        if isinstance(a, (Obj, SList, AttrModel, dict, set)) or isinstance(b, (Obj, SList, AttrModel, dict, set)):
            if isinstance(a, (dict, set)) and type(a) is type(b):
                return a == b
            return a is b
        try:
            return a == b
        except Exception:
            raise Unknown("equality of %r and %r" % (a, b))

    def contains(self, cont, x):
        if symlist(cont):
            raise Unknown("membership in a symbolic list")
        if isinstance(cont, (list, tuple)):
            return any(self.equal(y, x) for y in cont)
        if isinstance(cont, (set, frozenset, dict)):
            try:
                return self.hashable(x) in cont
            except TypeError:
                raise Raised("TypeError: unhashable")
        if isinstance(cont, type({}.keys())) or isinstance(cont, type({}.values())):
            return any(self.equal(y, x) for y in cont)
        if isinstance(cont, AttrModel):
            return self.hashable(x) in cont.data
        if isinstance(cont, range):
            x = self.nums.norm(x)
            if isinstance(x, int):
                return x in cont
            raise Unknown("symbolic value in range")
        if isinstance(cont, str) and isinstance(x, str):
            return x in cont
        if isinstance(cont, Obj):
            m = self.find_method(cont, "__contains__")
            if m is not None:
                return self.truth(self.call(m, [x], {}))
            m = self.find_method(cont, "__iter__")
            if m is not None:
                return any(self.equal(y, x) for y in self.iterate(cont))
        if isinstance(cont, Opaque):
            return self.decide(("in", term_of(x), cont.term))
        if isinstance(cont, SList):
            raise Unknown("membership in a symbolic list")
        raise Unknown("membership test in %r" % (cont,))

    def hashable(self, v):
        v = self.nums.norm(v) if isinstance(v, Poly) else v
        if isinstance(v, Obj) and not v.fields.get("__opaque__"):
            k = self.record_key(v)
            if k is not None and ("__tuple__" in v.fields or v.fields.get("__hashable__")):
                return ("record", v.cls.name) + tuple(self.hashable(x) for x in k) if "__tuple__" not in v.fields else tuple(self.hashable(x) for x in k)
            m = self.find_method(v, "__hash__")
            if m is not None:
                return ("objhash", v.cls.name, self.hashable(self.call(m, [], {})))
            if self.find_method(v, "__eq__") is not None or k is not None:
                raise Raised("TypeError: unhashable type: '%s'" % v.cls.name)
        if isinstance(v, (list, dict, set)):
            raise Raised("TypeError: unhashable type")
        if isinstance(v, tuple):
            return tuple(self.hashable(x) for x in v)
        if isinstance(v, float) and v == int(v):
            return int(v)
        return v

    def truth(self, v, node=None):
        if isinstance(v, bool) or v is None:
            return bool(v)
        if isinstance(v, Model):
            return v.hb_truth(self)
        if symlist(v):
            if len(v):
                return True
            s = self.nums.sign(v.base)
            if s is None:
                return self.decide(("nonempty", v.name, repr(v.base)))
            return s > 0
        if isinstance(v, (int, float, Fraction, str, list, tuple, dict, set, frozenset, range)):
            return bool(v)
        if isinstance(v, (Sym, Poly)):
            s = self.nums.sign(v)
            if s is not None:
                return s != 0
            return not self.equal(v, 0)
        if isinstance(v, SList):
            if v.items:
                return True
            s = self.nums.sign(v.base)
            if s is None:
                return self.decide(("nonempty", v.name, repr(v.base)))
            return s > 0
        if isinstance(v, AttrModel):
            return True
        if isinstance(v, Obj):
            m = self.find_method(v, "__bool__")
            if m is not None:
                return self.truth(self.call(m, [], {}))
            m = self.find_method(v, "__len__")
            if m is not None:
                return self.truth(self.call(m, [], {}))
            return True
        if isinstance(v, Opaque):
            return self.decide(("truth", v.term))
        if isinstance(v, (FuncVal, ClassVal, Native, ModVal, ExtVal, LazyIter, LiveIter)):
            return True
        if isinstance(v, type({}.keys())) or isinstance(v, type({}.values())) or isinstance(v, type({}.items())):
            return len(v) > 0
        raise Unknown("truth value of %r" % (v,))

    # ------------------------------------------------------------------ names
    def lookup(self, name, frame, node=None):
        f = frame
        while f is not None:
            if name in f.vars and name not in f.globals_decl:
                return f.vars[name]
            f = f.parent
        v = self.global_name(frame.modname, name)
        if v is not _MISSING:
            return v
        if name in BUILTINS:
            return Native(name, BUILTINS[name])
        if name == "__name__":
            return frame.modname
        if name == "NotImplemented":
            return Opaque(("NotImplemented",))
        if name == "Ellipsis":
            return Opaque(("Ellipsis",))
        if name in ("__file__", "__doc__"):
            return Opaque((name, frame.modname))
        if name in EXC_NAMES:
            return Native(name, lambda ev, args, kw, _n=name: ("exc", _n, tuple(term_of(a) for a in args)))
        if name in ("int", "float", "bool", "str", "list", "tuple", "set", "dict", "type", "object", "complex"):
            return Native(name, BUILTINS[name])
        raise Unknown("unbound name `%s`" % name)

    def global_name(self, modname, name):
        key = (modname, name)
        if key in self.modconst:
            return self.modconst[key]
        h = self.hooks.get(("name", name))
        if h is not None:
            return h
        r = self.repo.resolve(modname, name)
        if r is None:
            return _MISSING
        kind, src, oname = r
        if kind == "def":
            m = self.repo.modules[src]
            fn = m.funcs.get(oname)
            if fn is None:
                return _MISSING
            v = FuncVal(src, fn)
        elif kind == "class":
            m = self.repo.modules[src]
            v = ClassVal(src, m.classes[oname])
        elif kind == "module":
            v = ModVal(src)
        elif kind == "external":
            v = ExtVal((src or "") + ("." + oname if oname else ""))
        elif kind == "var":
            v = self.module_constant(src, oname)
        else:
            return _MISSING
        self.modconst[key] = v
        return v

    def module_constant(self, modname, name):
        """value of a module-level assignment `name = <expr>` (the last one), evaluated in the module scope"""
        m = self.repo.modules[modname]
        val = _MISSING
        for st in self.repo._module_level_stmts(m):
            if isinstance(st, ast.Assign) and any(isinstance(t, ast.Name) and t.id == name for t in st.targets):
                val = st.value
            elif isinstance(st, ast.AnnAssign) and isinstance(st.target, ast.Name) and st.target.id == name and st.value is not None:
                val = st.value
        if val is _MISSING:
            return Opaque(("global", modname, name))
        self.modconst[(modname, name)] = Opaque(("global", modname, name))   # cycle guard
        try:
            return self.eval(val, Frame(modname))
        except Unknown:
            return Opaque(("global", modname, name))

    # ------------------------------------------------------------------ statements
    def tick(self):
        self.steps += 1
        if self.steps > self.max_steps:
            raise Unknown("evaluation budget exhausted (loop over a symbolic range?)")

    def exec_block(self, body, frame):
        for st in body:
            self.exec(st, frame)

    def exec(self, st, frame):
        if self.aborting:
            raise _GenClose()       # the run is over: suspended generators are unwound without evaluating their `finally` blocks
        self.tick()
        frame.cur = st
        m = getattr(self, "x_" + type(st).__name__, None)
        if m is None:
            raise Unknown("statement %s" % type(st).__name__)
        return m(st, frame)

    def x_Expr(self, st, f):
        self.eval(st.value, f)

    def x_Pass(self, st, f):
        pass

    def x_Import(self, st, f):
        for a in st.names:
            f.vars[a.asname or a.name.split(".")[0]] = ExtVal(a.name if a.asname else a.name.split(".")[0])

    def x_ImportFrom(self, st, f):
        mod = self.repo.modules.get(f.modname)
        src = self.repo._abs_import(mod, st) if mod is not None else st.module
        for a in st.names:
            if a.name == "*":
                continue
            full = (src + "." + a.name) if src else a.name
            if full in self.repo.modules:
                f.vars[a.asname or a.name] = ModVal(full)
            elif src in self.repo.modules:
                v = self.global_name(src, a.name)
                f.vars[a.asname or a.name] = v if v is not _MISSING else Opaque(("import", full))
            else:
                f.vars[a.asname or a.name] = ExtVal(full)

    def x_Global(self, st, f):
        f.globals_decl.update(st.names)

    def x_Nonlocal(self, st, f):
        f.nonlocal_decl = getattr(f, "nonlocal_decl", set()) | set(st.names)

    def x_Assert(self, st, f):
        if not self.truth(self.eval(st.test, f)):
            raise Raised("AssertionError", st)

    def x_Delete(self, st, f):
        for t in st.targets:
            if isinstance(t, ast.Subscript):
                c = self.eval(t.value, f)
                k = self.eval(t.slice, f)
                if isinstance(c, dict):
                    k = self.hashable(k)
                    if k not in c:
                        raise Raised("KeyError", st)
                    del c[k]
                elif isinstance(c, list) and not symlist(c):
                    k = self.nums.norm(k) if not isinstance(k, slice) else k
                    if not isinstance(k, (int, slice)):
                        raise Unknown("del of a symbolic index")
                    try:
                        del c[k]
                    except IndexError:
                        raise Raised("IndexError", st)
                elif isinstance(c, Obj):
                    m = self.find_method(c, "__delitem__")
                    if m is None:
                        raise Unknown("del on object %r" % (c,))
                    self.call(m, [k], {})
                else:
                    raise Unknown("del on %r" % (c,))
            elif isinstance(t, ast.Name):
                f.vars.pop(t.id, None)
            elif isinstance(t, ast.Attribute):
                o = self.eval(t.value, f)
                if isinstance(o, Obj) and t.attr in o.fields:
                    del o.fields[t.attr]
                else:
                    raise Unknown("del of an attribute")
            else:
                raise Unknown("del target")

    def def_defaults(self, nd, f):
        a = nd.args
        pos = [x.arg for x in a.posonlyargs + a.args]
        out = {}
        for p, d in zip(pos[len(pos) - len(a.defaults):], a.defaults):
            out[p] = self.eval(d, f)
        for p, d in zip(a.kwonlyargs, a.kw_defaults):
            if d is not None:
                out[p.arg] = self.eval(d, f)
        return out

    def x_FunctionDef(self, st, f):
        f.vars[st.name] = FuncVal(f.modname, st, closure=f, defaults=self.def_defaults(st, f))

    def x_ClassDef(self, st, f):
        f.vars[st.name] = ClassVal(f.modname, st)

    def x_Return(self, st, f):
        raise _Return(self.eval(st.value, f) if st.value is not None else None)

    def x_Break(self, st, f):
        raise _Break()

    def x_Continue(self, st, f):
        raise _Continue()

    def x_Raise(self, st, f):
        v = self.eval(st.exc, f) if st.exc is not None else "re-raise"
        raise Raised(v, st)

    def x_If(self, st, f):
        if self.truth(self.eval(st.test, f), st.test):
            self.exec_block(st.body, f)
        else:
            self.exec_block(st.orelse, f)

    def x_While(self, st, f):
        n = 0
        while self.truth(self.eval(st.test, f), st.test):
            n += 1
            if n > 64:
                raise Unknown("while loop does not terminate on the template")
            try:
                self.exec_block(st.body, f)
            except _Break:
                return
            except _Continue:
                continue
        self.exec_block(st.orelse, f)

    def iter_live(self, v, node=None):
        """python iterator over a value of the evaluated code: lazily for iterator objects, reading a list while it may grow"""
        if isinstance(v, Obj) and "__tuple__" not in v.fields:
            m = self.find_method(v, "__iter__")
            if m is not None:
                v = self.call(m, [], {})
        if isinstance(v, LiveIter):
            v = v.lst
        if isinstance(v, LazyIter):
            n = 0
            for x in v.it:
                n += 1
                if n > 50000:
                    raise Unknown("unbounded iteration")
                yield x
            return
        if isinstance(v, list) and not symlist(v):
            i = 0
            while i < len(v):
                yield list.__getitem__(v, i)
                i += 1
                if i > 100000:
                    raise Unknown("loop over a list that keeps growing")
            return
        for x in self.iterate(v, node):
            yield x

    def pyit(self, v):
        """the python iterator behind a value: shared when the value is an iterator object (single pass), fresh otherwise"""
        return v.it if isinstance(v, LazyIter) else self.iter_live(v)

    def x_For(self, st, f):
        broke = False
        for v in self.iter_live(self.eval(st.iter, f), st.iter):
            self.tick()
            self.assign(st.target, v, f)
            try:
                self.exec_block(st.body, f)
            except _Break:
                broke = True
                break
            except _Continue:
                continue
        if not broke:
            self.exec_block(st.orelse, f)

    def x_With(self, st, f):
        mgrs = []
        for it in st.items:
            m = self.eval(it.context_expr, f)
            if isinstance(m, Opaque) and isinstance(m.term, tuple) and len(m.term) > 1 and m.term[1] == "contextlib.suppress":
                if it.optional_vars is not None:
                    self.assign(it.optional_vars, None, f)
                names = [x[1] if isinstance(x, tuple) else str(x) for x in m.term[2]]
                try:
                    self.exec_block(st.body, f)
                except Raised as e:
                    nm = self.exc_name(e.value)
                    if nm is None:
                        raise Unknown("exception of unknown type under contextlib.suppress")
                    if not any(n in ("Exception", "BaseException") or nm in n for n in map(str, names)):
                        raise
                return
            if isinstance(m, CtxGen):
                try:
                    v = next(m.gen)
                except StopIteration:
                    raise Raised("RuntimeError: generator didn't yield")
                if it.optional_vars is not None:
                    self.assign(it.optional_vars, v, f)
                mgrs.append(m)
                continue
            if isinstance(m, Obj):
                ent = self.find_method(m, "__enter__")
                if ent is None:
                    raise Unknown("context manager without __enter__")
                v = self.call(ent, [], {})
            else:
                v = m
            if it.optional_vars is not None:
                self.assign(it.optional_vars, v, f)
            mgrs.append(m)
        pending = None
        try:
            self.exec_block(st.body, f)
        except Raised as e:
            pending = e
        except (_Return, _Break, _Continue) as e:
            pending = e
        for m in reversed(mgrs):
            if isinstance(m, CtxGen):
                if isinstance(pending, Raised):
                    try:
                        m.gen.throw(pending)
                        raise Raised("RuntimeError: generator didn't stop after throw()")
                    except StopIteration:
                        pending = None            # the context manager swallowed the exception
                    except Raised as e2:
                        pending = e2
                else:
                    try:
                        next(m.gen)
                        raise Raised("RuntimeError: generator didn't stop")
                    except StopIteration:
                        pass
            elif isinstance(m, Obj):
                ex = self.find_method(m, "__exit__")
                if ex is not None:
                    if isinstance(pending, Raised):
                        r = self.call(ex, [Opaque(("exc-type",)), pending.value, Opaque(("traceback",))], {})
                        if r is not None and not isinstance(r, Opaque) and self.truth(r):
                            pending = None
                    else:
                        self.call(ex, [None, None, None], {})
        if pending is not None:
            raise pending

    def x_Try(self, st, f):
        try:
            try:
                self.exec_block(st.body, f)
            except Raised as e:
                h = None
                for hh in st.handlers:
                    if self.handler_matches(hh, e, f):
                        h = hh
                        break
                if h is None:
                    raise
                if h.name:
                    f.vars[h.name] = e.value
                self.exec_block(h.body, f)
            else:
                self.exec_block(st.orelse, f)
        finally:
            if st.finalbody:
                self.exec_block(st.finalbody, f)

    @staticmethod
    def exc_name(v):
        if isinstance(v, tuple) and v:
            if v[0] == "exc":
                return v[1]
            if isinstance(v[0], str):
                return v[0].split(":")[0]
        if isinstance(v, str):
            return v.split(":")[0]
        if isinstance(v, Obj):
            return v.cls.name
        return None

    def handler_matches(self, h, e, f):
        if h.type is None:
            return True
        name = self.exc_name(e.value)
        types = h.type.elts if isinstance(h.type, ast.Tuple) else [h.type]
        for t in types:
            tn = t.id if isinstance(t, ast.Name) else t.attr if isinstance(t, ast.Attribute) else None
            if tn in ("Exception", "BaseException") or tn == name:
                return True
            if name is None:
                raise Unknown("exception of unknown type caught by a typed handler")
            if tn == "LookupError" and name in ("KeyError", "IndexError"):
                return True
            if tn == "ArithmeticError" and name == "ZeroDivisionError":
                return True
        return False

    def x_Match(self, st, f):
        subj = self.eval(st.subject, f)
        for case in st.cases:
            binds = {}
            if self.match_pattern(case.pattern, subj, binds, f):
                saved = dict(f.vars)
                f.vars.update(binds)
                if case.guard is None or self.truth(self.eval(case.guard, f)):
                    self.exec_block(case.body, f)
                    return
                f.vars.clear()
                f.vars.update(saved)

    def match_pattern(self, p, v, binds, f):
        if isinstance(p, ast.MatchValue):
            return self.equal(v, self.eval(p.value, f))
        if isinstance(p, ast.MatchSingleton):
            return v is p.value
        if isinstance(p, ast.MatchAs):
            if p.pattern is not None and not self.match_pattern(p.pattern, v, binds, f):
                return False
            if p.name is not None:
                binds[p.name] = v
            return True
        if isinstance(p, ast.MatchOr):
            for q in p.patterns:
                b2 = {}
                if self.match_pattern(q, v, b2, f):
                    binds.update(b2)
                    return True
            return False
        if isinstance(p, ast.MatchSequence):
            if isinstance(v, Obj) and "__tuple__" in v.fields:
                v = tuple(v.fields[n] for n in v.fields["__tuple__"])
            if symlist(v) or not isinstance(v, (list, tuple)):
                if isinstance(v, (list, tuple, int, float, str, Fraction, Sym, Poly, dict, set)) and not symlist(v) or v is None:
                    return False
                raise Unknown("sequence pattern against %r" % (v,))
            vals = list(v)
            star = [i for i, q in enumerate(p.patterns) if isinstance(q, ast.MatchStar)]
            if not star:
                return len(vals) == len(p.patterns) and all(self.match_pattern(q, x, binds, f) for q, x in zip(p.patterns, vals))
            i = star[0]
            after = len(p.patterns) - i - 1
            if len(vals) < len(p.patterns) - 1:
                return False
            ok = all(self.match_pattern(q, x, binds, f) for q, x in zip(p.patterns[:i], vals[:i])) and \
                all(self.match_pattern(q, x, binds, f) for q, x in zip(p.patterns[i + 1:], vals[len(vals) - after:]))
            if ok and p.patterns[i].name is not None:
                binds[p.patterns[i].name] = SList(items=vals[i:len(vals) - after])
            return ok
        if isinstance(p, ast.MatchClass):
            cls = self.eval(p.cls, f)
            if not _b_isinstance(self, [v, cls], {}):
                return False
            if p.patterns:
                if len(p.patterns) == 1 and isinstance(cls, Native):
                    return self.match_pattern(p.patterns[0], v, binds, f)
                raise Unknown("positional class pattern")
            return all(self.hasattr(v, k) and self.match_pattern(q, self.getattr(v, k), binds, f) for k, q in zip(p.kwd_attrs, p.kwd_patterns))
        raise Unknown("match pattern %s" % type(p).__name__)

    def x_Assign(self, st, f):
        v = self.eval(st.value, f)
        for t in st.targets:
            self.assign(t, v, f)

    def x_AnnAssign(self, st, f):
        if st.value is not None:
            self.assign(st.target, self.eval(st.value, f), f)

    def x_AugAssign(self, st, f):
        t = st.target
        rhs = self.eval(st.value, f)
        if isinstance(t, ast.Name):
            cur = self.lookup(t.id, f)
            if isinstance(cur, Sym) and cur.kind == "pos" and isinstance(st.op, (ast.Add, ast.Sub, ast.Mult, ast.Div)):
                # positions are numpy arrays: an augmented assignment works in place on the array that is stored in the vertex container
                self.suspects.append(("in-place arithmetic on a vertex position read from the container", st))
            self.store_name(t.id, self.iop(st.op, cur, rhs, st), f)
        elif isinstance(t, ast.Attribute):
            o = self.eval(t.value, f)
            cur = self.getattr(o, t.attr, t)
            self.setattr(o, t.attr, self.iop(st.op, cur, rhs, st))
        elif isinstance(t, ast.Subscript):
            o = self.eval(t.value, f)
            k = self.eval(t.slice, f)
            cur = self.getitem(o, k, t)
            self.setitem(o, k, self.iop(st.op, cur, rhs, st), t)
        else:
            raise Unknown("augmented assignment target")

    def iop(self, op, cur, rhs, node):
        """in-place operator: lists / sets / objects are mutated, everything else rebinds"""
        if isinstance(op, ast.Add):
            if isinstance(cur, list):
                self.list_extend(cur, rhs, node)
                return cur
            if isinstance(cur, Obj):
                m = self.find_method(cur, "__iadd__")
                if m is not None:
                    return self.call(m, [rhs], {})
                m = self.find_method(cur, "__add__")
                if m is not None:
                    return self.call(m, [rhs], {})
                raise Raised("TypeError: += on %s" % cur.cls.name, node)
        if isinstance(op, (ast.BitOr, ast.BitAnd, ast.Sub, ast.BitXor)) and isinstance(cur, set) and isinstance(rhs, (set, frozenset)):
            if isinstance(op, ast.BitOr):
                cur |= rhs
            elif isinstance(op, ast.BitAnd):
                cur &= rhs
            elif isinstance(op, ast.Sub):
                cur -= rhs
            else:
                cur ^= rhs
            return cur
        if isinstance(op, (ast.BitOr, ast.BitAnd, ast.BitXor)) and isinstance(cur, (bool, set, frozenset)) and isinstance(rhs, (bool, set, frozenset)):
            return {ast.BitOr: lambda a, b: a | b, ast.BitAnd: lambda a, b: a & b, ast.BitXor: lambda a, b: a ^ b}[type(op)](cur, rhs)
        return self.arith(op, cur, rhs)

    def list_extend(self, cur, rhs, node=None):
        """in-place cur += rhs (the object identity of cur is kept)"""
        if symlist(rhs) or symlist(cur) and isinstance(rhs, SList):
            if not isinstance(cur, SList):
                raise Unknown("a plain list is extended by a symbolic one")
            n = self.concat(cur, rhs)
            cur.base, cur.elem = n.base, n.elem
            cur[:] = list(n)
        else:
            cur.extend(self.iterate(rhs, node))

    def store_name(self, name, v, f):
        if name in f.globals_decl:
            self.modconst[(f.modname, name)] = v
            return
        if name in getattr(f, "nonlocal_decl", ()):
            g = f.parent
            while g is not None:
                if name in g.vars:
                    g.vars[name] = v
                    return
                g = g.parent
        f.vars[name] = v

    def assign(self, t, v, f):
        if isinstance(t, ast.Name):
            self.store_name(t.id, v, f)
        elif isinstance(t, (ast.Tuple, ast.List)):
            vals = list(self.iterate(v, t))
            star = [i for i, e in enumerate(t.elts) if isinstance(e, ast.Starred)]
            if star:
                i = star[0]
                after = len(t.elts) - i - 1
                if len(vals) < len(t.elts) - 1:
                    raise Raised("ValueError: not enough values to unpack", t)
                for e, x in zip(t.elts[:i], vals[:i]):
                    self.assign(e, x, f)
                self.assign(t.elts[i].value, vals[i:len(vals) - after], f)
                for e, x in zip(t.elts[i + 1:], vals[len(vals) - after:]):
                    self.assign(e, x, f)
                return
            if len(vals) != len(t.elts):
                raise Raised("ValueError: unpacking %d values into %d names" % (len(vals), len(t.elts)), t)
            for e, x in zip(t.elts, vals):
                self.assign(e, x, f)
        elif isinstance(t, ast.Attribute):
            self.setattr(self.eval(t.value, f), t.attr, v)
        elif isinstance(t, ast.Subscript):
            self.setitem(self.eval(t.value, f), self.eval(t.slice, f), v, t)
        elif isinstance(t, ast.Starred):
            self.assign(t.value, v, f)
        else:
            raise Unknown("assignment target %s" % type(t).__name__)

    # ------------------------------------------------------------------ expressions
    def eval(self, e, f):
        self.tick()
        m = getattr(self, "e_" + type(e).__name__, None)
        if m is None:
            raise Unknown("expression %s" % type(e).__name__)
        return m(e, f)

    def e_Constant(self, e, f):
        return e.value

    def e_Name(self, e, f):
        return self.lookup(e.id, f, e)

    def e_NamedExpr(self, e, f):
        v = self.eval(e.value, f)
        g = f
        while getattr(g, "is_comp", False) and g.parent is not None:
            g = g.parent            # an assignment expression inside a comprehension binds in the enclosing scope
        self.assign(e.target, v, g)
        return v

    def e_Tuple(self, e, f):
        return tuple(self.seq_elts(e.elts, f))

    def e_List(self, e, f):
        return SList(items=self.seq_elts(e.elts, f))

    def e_Set(self, e, f):
        return set(self.hashable(x) for x in self.seq_elts(e.elts, f))

    def seq_elts(self, elts, f):
        out = []
        for x in elts:
            if isinstance(x, ast.Starred):
                out.extend(self.iterate(self.eval(x.value, f), x))
            else:
                out.append(self.eval(x, f))
        return out

    def e_Dict(self, e, f):
        d = {}
        for k, v in zip(e.keys, e.values):
            if k is None:
                d.update(self.eval(v, f))
            else:
                d[self.hashable(self.eval(k, f))] = self.eval(v, f)
        return d

    def e_JoinedStr(self, e, f):
        parts = []
        for v in e.values:
            if isinstance(v, ast.Constant):
                parts.append(str(v.value))
            else:
                try:
                    parts.append("{%s}" % (term_of(self.eval(v.value, f)),))
                except Unknown:
                    parts.append("{?}")
        return "".join(parts)

    def e_FormattedValue(self, e, f):
        return str(term_of(self.eval(e.value, f)))

    def e_Lambda(self, e, f):
        return FuncVal(f.modname, e, closure=f, defaults=self.def_defaults(e, f))

    def e_IfExp(self, e, f):
        return self.eval(e.body, f) if self.truth(self.eval(e.test, f), e.test) else self.eval(e.orelse, f)

    def e_BoolOp(self, e, f):
        v = None
        for x in e.values:
            v = self.eval(x, f)
            t = self.truth(v, x)
            if isinstance(e.op, ast.And) and not t:
                return v
            if isinstance(e.op, ast.Or) and t:
                return v
        return v

    def e_UnaryOp(self, e, f):
        v = self.eval(e.operand, f)
        if isinstance(e.op, ast.Not):
            return not self.truth(v, e.operand)
        if isinstance(e.op, ast.USub):
            return self.arith(ast.Sub(), 0, v)
        if isinstance(e.op, ast.UAdd):
            return v
        raise Unknown("unary operator")

    def e_BinOp(self, e, f):
        a, b = self.eval(e.left, f), self.eval(e.right, f)
        if isinstance(a, Obj):
            nm = {ast.Add: "__add__", ast.Sub: "__sub__", ast.Mult: "__mul__", ast.Div: "__truediv__"}.get(type(e.op))
            m = self.find_method(a, nm) if nm else None
            if m is None:
                raise Unknown("operator on object %r" % (a,))
            return self.call(m, [b], {})
        if isinstance(e.op, (ast.BitOr, ast.BitAnd, ast.Sub)) and isinstance(a, (set, frozenset)) and isinstance(b, (set, frozenset)):
            return {ast.BitOr: a | b, ast.BitAnd: a & b, ast.Sub: a - b}[type(e.op)]
        if isinstance(e.op, ast.BitOr) and isinstance(a, dict) and isinstance(b, dict):
            return {**a, **b}
        return self.arith(e.op, a, b)

    def e_Compare(self, e, f):
        left = self.eval(e.left, f)
        for op, c in zip(e.ops, e.comparators):
            right = self.eval(c, f)
            if isinstance(left, Model) and not isinstance(op, (ast.Is, ast.IsNot, ast.In, ast.NotIn)):
                return left.hb_compare(self, op, right, False)
            if isinstance(right, Model) and not isinstance(op, (ast.Is, ast.IsNot, ast.In, ast.NotIn)):
                return right.hb_compare(self, op, left, True)
            if isinstance(left, Opaque) and left.pytype == "array" or isinstance(right, Opaque) and right.pytype == "array":
                # element-wise comparison of an array: an array of booleans
                return Opaque(("cmp", type(op).__name__, term_of(left), term_of(right)), "array")
            if not self.compare(op, left, right, e):
                return False
            left = right
        return True

    def e_Attribute(self, e, f):
        return self.getattr(self.eval(e.value, f), e.attr, e)

    def e_Subscript(self, e, f):
        o = self.eval(e.value, f)
        if isinstance(e.slice, ast.Slice):
            return self.getslice(o, e.slice, f, e)
        return self.getitem(o, self.eval(e.slice, f), e)

    def e_Slice(self, e, f):
        return slice(*(self.nums.norm(self.eval(x, f)) if x is not None else None for x in (e.lower, e.upper, e.step)))

    def e_Starred(self, e, f):
        raise Unknown("starred expression")

    def getslice(self, o, sl, f, node):
        lo, hi, st = (self.nums.norm(self.eval(x, f)) if x is not None else None for x in (sl.lower, sl.upper, sl.step))
        if isinstance(o, Obj):
            m = self.find_method(o, "__getitem__")
            if m is None:
                raise Unknown("slice of object")
            return self.call(m, [slice(lo, hi, st)], {})
        if isinstance(o, Model):
            return o.hb_getitem(self, slice(lo, hi, st))
        if isinstance(o, Opaque):
            return Opaque(("slice", o.term, term_of(lo), term_of(hi), term_of(st)), o.pytype)
        if not all(x is None or isinstance(x, int) for x in (lo, hi, st)):
            raise Unknown("slice with symbolic bounds")
        if symlist(o):
            raise Unknown("slice of a symbolic list")
        if isinstance(o, list):
            return SList(items=list(o)[slice(lo, hi, st)])
        if isinstance(o, (tuple, str, range)):
            return o[slice(lo, hi, st)]
        raise Unknown("slice of %r" % (o,))

    # ------------------------------------------------------------------ comprehensions
    def comp(self, e, f, emit):
        fr = Frame(f.modname, parent=f, fn=f.fn)
        fr.is_comp = True

        def rec(i):
            if i == len(e.generators):
                emit(fr)
                return
            g = e.generators[i]
            for v in self.iter_live(self.eval(g.iter, fr if i else f), g.iter):
                self.tick()
                self.assign(g.target, v, fr)
                if all(self.truth(self.eval(c, fr), c) for c in g.ifs):
                    rec(i + 1)
        rec(0)

    def e_ListComp(self, e, f):
        out = SList()
        self.comp(e, f, lambda fr: out.append(self.eval(e.elt, fr)))
        return out

    def e_GeneratorExp(self, e, f):
        """a generator expression: the outermost iterable is evaluated now, everything else when the values are requested"""
        fr = Frame(f.modname, parent=f, fn=f.fn)
        fr.is_comp = True
        first = self.pyit(self.eval(e.generators[0].iter, f))

        def run(gen):
            def rec(i):
                if i == len(e.generators):
                    gen.yield_(self.eval(e.elt, fr))
                    return
                g = e.generators[i]
                it = first if i == 0 else self.iter_live(self.eval(g.iter, fr), g.iter)
                for v in it:
                    self.tick()
                    self.assign(g.target, v, fr)
                    if all(self.truth(self.eval(c, fr), c) for c in g.ifs):
                        rec(i + 1)
            rec(0)
        return LazyIter(GenThread(self, run))

    def e_SetComp(self, e, f):
        out = set()
        self.comp(e, f, lambda fr: out.add(self.hashable(self.eval(e.elt, fr))))
        return out

    def e_DictComp(self, e, f):
        out = {}

        def emit(fr):
            k = self.hashable(self.eval(e.key, fr))
            out[k] = self.eval(e.value, fr)
        self.comp(e, f, emit)
        return out

    def e_Yield(self, e, f):
        fr = f
        while fr is not None and fr.yields is None:
            fr = fr.parent
        if fr is None:
            raise Unknown("yield outside a generator")
        fr.yields.yield_(self.eval(e.value, f) if e.value is not None else None)
        return None

    def e_YieldFrom(self, e, f):
        fr = f
        while fr is not None and fr.yields is None:
            fr = fr.parent
        if fr is None:
            raise Unknown("yield outside a generator")
        for x in self.iter_live(self.eval(e.value, f), e):
            fr.yields.yield_(x)
        return None

    # ------------------------------------------------------------------ iteration
    def iterate(self, v, node=None):
        if isinstance(v, LazyIter):
            out = []
            for x in v.it:
                out.append(x)
                if len(out) > 50000:
                    raise Unknown("unbounded iteration")
            return out
        if isinstance(v, LiveIter):
            v = v.lst
        if isinstance(v, Model):
            return v.hb_iter(self)
        if symlist(v):
            raise Unknown("iteration over a sequence of symbolic length (%s)" % v.name)
        if isinstance(v, (list, tuple, range, str)):
            return list(v)
        if isinstance(v, (set, frozenset)):
            return sorted(v, key=lambda x: repr(term_of(x)))      # any order models a set; a fixed one keeps the evaluation deterministic
        if isinstance(v, dict):
            return list(v.keys())
        if isinstance(v, (type({}.keys()), type({}.values()), type({}.items()))):
            return list(v)
        if isinstance(v, AttrModel):
            return list(v.data.keys())
        if isinstance(v, Obj) and "__tuple__" in v.fields:
            return [v.fields[n] for n in v.fields["__tuple__"]]
        if isinstance(v, Obj):
            m = self.find_method(v, "__iter__")
            if m is not None:
                return self.iterate(self.call(m, [], {}), node)
            m = self.find_method(v, "__getitem__")
            ln = self.find_method(v, "__len__")
            if m is not None and ln is not None:
                n = self.nums.norm(self.call(ln, [], {}))
                if isinstance(n, int):
                    return [self.call(m, [i], {}) for i in range(n)]
            raise Unknown("iteration over object %r" % (v,))
        if isinstance(v, Opaque):
            raise Unknown("iteration over an unknown value %r" % (v,))
        raise Unknown("iteration over %r" % (v,))

    # ------------------------------------------------------------------ items
    def index_int(self, k):
        k = self.nums.norm(k)
        if isinstance(k, bool):
            return int(k)
        return k

    def getitem(self, o, k, node=None):
        if isinstance(o, Model):
            return o.hb_getitem(self, k)
        if symlist(o):
            return self.slist_get(o, k, node)
        if isinstance(o, (list, tuple, str, range)):
            k = self.index_int(k)
            if isinstance(k, slice):
                return SList(items=list(o)[k]) if isinstance(o, list) else o[k]
            if not isinstance(k, int):
                raise Unknown("symbolic index `%r` into a concrete sequence" % (k,))
            try:
                return o[k]
            except IndexError:
                raise Raised("IndexError", node)
        if isinstance(o, dict):
            k = self.hashable(k)
            if k not in o:
                if isinstance(o, DefaultDict) and o.factory is not None:
                    o[k] = self.call(o.factory, [], {})
                    return o[k]
                raise Raised(("KeyError", term_of(k)), node)
            return o[k]
        if isinstance(o, AttrModel):
            k = self.hashable(k)
            if k not in o.data and o.elemsize == 1:
                t = str(o.type)
                if "bool" in t:
                    return False            # default value of the element type
                if "int" in t:
                    return 0
            return o.data.get(k, Opaque(("default", id(o))))
        if isinstance(o, Obj) and "__tuple__" in o.fields:
            return self.getitem(tuple(o.fields[n] for n in o.fields["__tuple__"]), k, node)
        if isinstance(o, Obj):
            m = self.find_method(o, "__getitem__")
            if m is None:
                raise Unknown("subscript of object %r" % (o,))
            return self.call(m, [k], {})
        if isinstance(o, Opaque):
            if isinstance(k, tuple):
                return Opaque(("item", o.term, term_of(k)), o.pytype)
            return Opaque(("item", o.term, term_of(k)), "array" if o.pytype == "shape" else None) if o.pytype != "shape" else Opaque(("item", o.term, term_of(k)))
        if isinstance(o, (ExtVal, Native, ClassVal)):
            return Opaque(("generic", repr(o)))       # typing subscripts: Optional[int]
        raise Unknown("subscript of %r" % (o,))

    def slist_pos(self, o, k):
        """(segment, offset): ('base', k) or ('items', int)"""
        k = self.index_int(k)
        d = self.arith(ast.Sub(), k, o.base)
        s = self.nums.sign(d)
        if s is not None and s >= 0:
            d = self.nums.norm(d)
            if not isinstance(d, int):
                raise Unknown("symbolic offset into the appended part of a sequence")
            return "items", d
        if s == -1:
            s0 = self.nums.sign(k)
            if s0 is not None and s0 < 0:
                kk = self.nums.norm(self.arith(ast.Add(), k, len(o.items)))
                if isinstance(k, int) and -len(o.items) <= k:
                    return "items", len(o.items) + k
                raise Unknown("negative index into a symbolic sequence")
            return "base", k
        raise Unknown("cannot place index %r in sequence %s" % (k, o.name))

    def slist_get(self, o, k, node=None):
        seg, i = self.slist_pos(o, k)
        if seg == "base":
            return o.elem(i)
        if i >= len(o):
            raise Raised("IndexError", node)
        return list.__getitem__(o, i)

    def setitem(self, o, k, v, node=None):
        if symlist(o):
            seg, i = self.slist_pos(o, k)
            if seg == "items":
                if i >= len(o):
                    raise Raised("IndexError", node)
                list.__setitem__(o, i, v)
            else:
                old = o.elem
                key = self.hashable(i)
                o.elem = lambda j, _old=old, _key=key, _v=v: _v if self.hashable(self.index_int(j)) == _key else _old(j)
            return
        if isinstance(o, list):
            k = self.index_int(k)
            if isinstance(k, slice):
                o[k] = list(self.iterate(v))
                return
            if not isinstance(k, int):
                raise Unknown("store under a symbolic index into a concrete list")
            try:
                o[k] = v
            except IndexError:
                raise Raised("IndexError", node)
            return
        if isinstance(o, tuple):
            raise Raised("TypeError: 'tuple' object does not support item assignment", node)
        if isinstance(o, dict):
            o[self.hashable(k)] = v
            return
        if isinstance(o, AttrModel):
            o.data[self.hashable(k)] = v
            return
        if isinstance(o, Obj):
            m = self.find_method(o, "__setitem__")
            if m is None:
                raise Unknown("item store on object %r" % (o,))
            self.call(m, [k, v], {})
            return
        if isinstance(o, Opaque):
            self.log.append(("opaque-store", o.term, term_of(k), term_of(v)))
            return
        raise Unknown("item store on %r" % (o,))

    # ------------------------------------------------------------------ classes and attributes
    def classval(self, modname, qual):
        modname = modname if modname.startswith(PKG) else PKG + "." + modname
        return ClassVal(modname, self.repo.cls(modname, qual))

    def mro(self, cv):
        try:
            return [ClassVal(m.name, c) for m, c in self.repo.mro(self.repo.modules[cv.modname], cv.node)]
        except KeyError:
            return [cv]

    def class_attr(self, cv, name):
        """(owner ClassVal, node) of a method / class-level assignment, following the MRO"""
        for c in self.mro(cv):
            found = None
            for st in c.node.body:
                if isinstance(st, (ast.FunctionDef, ast.AsyncFunctionDef)) and st.name == name:
                    if any(isinstance(d, ast.Attribute) and d.attr in ("setter", "deleter") for d in st.decorator_list):
                        continue
                    found = st
                elif isinstance(st, ast.Assign) and any(isinstance(t, ast.Name) and t.id == name for t in st.targets):
                    found = st
                elif isinstance(st, ast.AnnAssign) and isinstance(st.target, ast.Name) and st.target.id == name and st.value is not None:
                    found = st
                elif isinstance(st, ast.ClassDef) and st.name == name:
                    found = st
            if found is not None:
                return c, found
        return None, None

    def ext_name(self, expr, modname):
        """last component of the external name an expression refers to, import aliases resolved (`_NamedTuple` -> 'NamedTuple')"""
        try:
            v = self.eval(expr, Frame(modname))
        except (Unknown, Raised):
            return au.src(expr).split(".")[-1]
        return v.dotted.split(".")[-1] if isinstance(v, ExtVal) else au.src(expr).split(".")[-1]

    def base_names(self, cv):
        return {self.ext_name(b, c.modname) for c in self.mro(cv) for b in c.node.bases}

    def class_value(self, owner, nd):
        """value of a class-level assignment, evaluated once per run (a class-level table that is mutated keeps its state)"""
        key = ("classattr", id(nd))
        if key not in self.modconst:
            fr = Frame(owner.modname)
            # earlier class-level names are visible in later class-level expressions
            for st in owner.node.body:
                if st is nd:
                    break
                if isinstance(st, ast.Assign) and len(st.targets) == 1 and isinstance(st.targets[0], ast.Name):
                    try:
                        fr.vars[st.targets[0].id] = self.class_value(owner, st)
                    except (Unknown, Raised):
                        pass
                elif isinstance(st, ast.FunctionDef):
                    fr.vars[st.name] = FuncVal(owner.modname, st, cls=owner)
            self.modconst[key] = self.eval(nd.value, fr)
        return self.modconst[key]

    def node_module(self, node):
        """name of the module a syntax node belongs to"""
        if not hasattr(self, "_tree_mod"):
            self._tree_mod = {id(m.tree): n for n, m in self.repo.modules.items()}
        n = node
        while n is not None and not isinstance(n, ast.Module):
            n = getattr(n, "_parent", None)
        return self._tree_mod.get(id(n)) if n is not None else None

    def _decos(self, fn):
        """names of the decorators of a function (`@a.b(...)` -> 'b'), import aliases resolved (`_contextmanager` -> 'contextmanager')"""
        out = set()
        mod = None
        for d in fn.decorator_list:
            e = d.func if isinstance(d, ast.Call) else d
            if isinstance(e, ast.Name):
                nm = e.id
                if mod is None:
                    mod = self.node_module(fn) or ""
                r = self.repo.resolve(mod, nm) if mod else None
                if r is not None and r[0] == "external" and r[2]:
                    nm = r[2]
                out.add(nm)
            elif isinstance(e, ast.Attribute):
                out.add(e.attr)          # x.setter / functools.wraps / f.register
            else:
                out.add("<expr>")
        return out

    def find_method(self, obj, name):
        h = self.hooks.get(("method", obj.cls.name, name))
        if h is None:
            for c in self.mro(obj.cls)[1:]:
                h = self.hooks.get(("method", c.name, name))
                if h is not None:
                    break
        if h is not None:
            return Native(name, lambda ev, args, kw, _h=h, _o=obj: _h(ev, _o, args, kw))
        owner, node = self.class_attr(obj.cls, name)
        if isinstance(node, (ast.FunctionDef, ast.AsyncFunctionDef)):
            d = self._decos(node)
            if "staticmethod" in d:
                return FuncVal(owner.modname, node, cls=owner)
            if "classmethod" in d:
                return FuncVal(owner.modname, node, bound=obj.cls, cls=owner)
            return FuncVal(owner.modname, node, bound=obj, cls=owner)
        return None

    def getattr(self, o, name, node=None):
        if isinstance(o, Obj):
            h = self.hooks.get(("attr", o.cls.name, name))
            if h is not None:
                return h(self, o)
            if name in o.fields:
                return o.fields[name]
            h = self.hooks.get(("method", o.cls.name, name))
            if h is not None:
                return Native(name, lambda ev, args, kw, _h=h, _o=o: _h(ev, _o, args, kw))
            owner, nd = self.class_attr(o.cls, name)
            if o.fields.get("__opaque__") and isinstance(nd, (ast.FunctionDef, ast.AsyncFunctionDef)):
                # instance of a class that is not analysed here: its methods are not followed
                if "property" in self._decos(nd):
                    return Opaque(("attr", term_of(o), name))

                def opaque_call(ev, args, kw, _o=o, _n=name):
                    ev.log.append(("opaque-call", _o, _n, list(args)))
                    return Opaque(("call", term_of(_o), _n, tuple(term_of(a) for a in args)))
                return Native(name, opaque_call)
            if isinstance(nd, (ast.FunctionDef, ast.AsyncFunctionDef)):
                d = self._decos(nd)
                if "property" in d or "cached_property" in d:
                    return self.call(FuncVal(owner.modname, nd, bound=o, cls=owner), [], {})
                return self.find_method(o, name)
            if isinstance(nd, (ast.Assign, ast.AnnAssign)):
                v = self.class_value(owner, nd)
                if isinstance(v, PropVal):
                    return self.call(v.fget, [o], {})
                return v
            if isinstance(nd, ast.ClassDef):
                return ClassVal(owner.modname, nd)
            if name == "__class__":
                return o.cls
            if name == "__dict__":
                return {k: v for k, v in o.fields.items() if not k.startswith("__")}
            if "__tuple__" in o.fields and name in ("_replace", "_asdict", "_fields"):
                names = o.fields["__tuple__"]
                if name == "_fields":
                    return tuple(names)
                if name == "_asdict":
                    return Native("_asdict", lambda ev, a, k: {n: o.fields[n] for n in names})

                def _replace(ev, a, k, _o=o):
                    r = Obj(_o.cls, dict(_o.fields))
                    for kk, vv in k.items():
                        if kk not in names:
                            raise Raised("ValueError: unexpected field name")
                        r.fields[kk] = vv
                    return r
                return Native("_replace", _replace)
            if o.fields.get("__opaque__"):
                return Opaque(("attr", term_of(o), name))
            ga = None if name.startswith("__") else self.find_method(o, "__getattr__")
            if ga is not None:
                return self.call(ga, [name], {})
            raise Raised(("AttributeError", o.cls.name, name), node)
        if isinstance(o, ClassVal):
            if name == "__name__":
                return o.name
            if name in ("_fields", "_make") and "NamedTuple" in self.base_names(o):
                flds = [st.target.id for c in reversed(self.mro(o)) for st in c.node.body if isinstance(st, ast.AnnAssign) and isinstance(st.target, ast.Name)]
                if name == "_fields":
                    return tuple(flds)
                return Native("_make", lambda ev, a, k, _o=o: ev.instantiate(_o, list(ev.iterate(a[0])), {}))
            owner, nd = self.class_attr(o, name)
            if isinstance(nd, (ast.FunctionDef, ast.AsyncFunctionDef)):
                d = self._decos(nd)
                if "classmethod" in d:
                    return FuncVal(owner.modname, nd, bound=o, cls=owner)
                return FuncVal(owner.modname, nd, cls=owner)
            if isinstance(nd, (ast.Assign, ast.AnnAssign)):
                return self.class_value(owner, nd)
            if isinstance(nd, ast.ClassDef):
                return ClassVal(owner.modname, nd)
            raise Unknown("class attribute %s.%s" % (o.name, name))
        if isinstance(o, ModVal):
            v = self.global_name(o.name, name)
            if v is _MISSING:
                if o.name + "." + name in self.repo.modules:
                    return ModVal(o.name + "." + name)
                return Opaque(("global", o.name, name))
            return v
        if isinstance(o, ExtVal):
            return ExtVal(o.dotted + "." + name)
        if isinstance(o, SuperVal):
            for c in self.mro(o.cls)[1:]:
                for st in c.node.body:
                    if isinstance(st, (ast.FunctionDef, ast.AsyncFunctionDef)) and st.name == name:
                        return FuncVal(c.modname, st, bound=o.obj, cls=c)
            if name == "__init__":
                return Native("object.__init__", lambda ev, args, kw: None)
            raise Unknown("super().%s" % name)
        if isinstance(o, Model):
            return o.hb_getattr(self, name)
        if isinstance(o, Opaque):
            if name == "shape":
                return Opaque(("attr", o.term, "shape"), "shape")
            return Opaque(("attr", o.term, name))
        if isinstance(o, CtxGen) and name in ("__enter__", "__exit__"):
            def enter(ev, a, k, _g=o.gen):
                try:
                    return next(_g)
                except StopIteration:
                    raise Raised("RuntimeError: generator didn't yield")

            def exit_(ev, a, k, _g=o.gen):
                if a and a[0] is not None:
                    exc = Raised(a[1] if len(a) > 1 else a[0])
                    try:
                        _g.throw(exc)
                        raise Raised("RuntimeError: generator didn't stop after throw()")
                    except StopIteration:
                        return True
                    except Raised as e2:
                        if e2 is exc:
                            return False
                        raise
                try:
                    next(_g)
                    raise Raised("RuntimeError: generator didn't stop")
                except StopIteration:
                    return False
            return Native(name, enter if name == "__enter__" else exit_)
        m = self.native_method(o, name)
        if m is not None:
            return m
        if isinstance(o, AttrModel) and name in ("type", "elemsize"):
            return getattr(o, name)
        if isinstance(o, FuncVal) and name in ("__name__",):
            return o.name
        if isinstance(o, Native) and o.name == "dict" and name == "fromkeys":
            return Native("fromkeys", lambda ev, a, k: {ev.hashable(x): (a[1] if len(a) > 1 else None) for x in ev.iterate(a[0])})
        raise Unknown("attribute `%s` of %r" % (name, o))

    def setattr(self, o, name, v):
        if isinstance(o, Obj):
            h = self.hooks.get(("setattr", o.cls.name, name))
            if h is not None:
                h(self, o, v)
                return
            if name not in o.fields:
                for c in self.mro(o.cls):
                    for st in c.node.body:
                        if isinstance(st, ast.FunctionDef) and st.name == name and any(
                                isinstance(d, ast.Attribute) and d.attr == "setter" for d in st.decorator_list):
                            self.call(FuncVal(c.modname, st, bound=o, cls=c), [v], {})
                            return
                        if isinstance(st, ast.FunctionDef) and st.name == "__setattr__":
                            raise Unknown("class %s defines __setattr__" % c.name)
            o.fields[name] = v
            return
        if isinstance(o, Opaque):
            self.log.append(("opaque-setattr", o.term, name, term_of(v)))
            return
        if isinstance(o, FuncVal) and name in ("__name__", "__doc__", "__qualname__"):
            return
        raise Unknown("attribute store on %r" % (o,))

    def hasattr(self, o, name):
        if isinstance(o, Obj):
            if name in o.fields:
                return True
            owner, nd = self.class_attr(o.cls, name)
            if nd is not None:
                return True
            if o.fields.get("__opaque__") and not o.fields.get("__closed__"):
                return self.decide(("hasattr", term_of(o), name))
            return False
        if isinstance(o, Opaque):
            return self.decide(("hasattr", o.term, name))
        if o is None:
            return False
        try:
            self.getattr(o, name)
            return True
        except (Unknown, Raised):
            return False

    # ------------------------------------------------------------------ calls
    def e_Call(self, e, f):
        # super() needs the frame
        if isinstance(e.func, ast.Name) and e.func.id == "super" and not e.args:
            fr = f
            while fr is not None and fr.fn is None:
                fr = fr.parent
            if fr is None or fr.fn.cls is None:
                raise Unknown("super() outside a method")
            first = au.params(fr.fn.node)[0]
            return SuperVal(fr.vars[first], fr.fn.cls)
        fn = self.eval(e.func, f)
        args = []
        for a in e.args:
            if isinstance(a, ast.Starred):
                args.extend(self.iterate(self.eval(a.value, f), a))
            else:
                args.append(self.eval(a, f))
        kw = {}
        for k in e.keywords:
            if k.arg is None:
                kw.update(self.eval(k.value, f))
            else:
                kw[k.arg] = self.eval(k.value, f)
        return self.call(fn, args, kw, e)

    def call(self, fn, args, kw, node=None):
        self.tick()
        if isinstance(fn, Native):
            return fn.fn(self, args, kw)
        if isinstance(fn, FuncVal):
            q = fn.modname + "." + getattr(fn.node, "_qualname", fn.name)
            h = self.hooks.get(("func", q)) or (self.hooks.get(("func", fn.name)) if fn.bound is None and fn.cls is None else None)
            if h is not None:
                return h(self, args, kw)
            if not fn.modname.startswith(FOLLOW):
                # functions of the other sub-packages (geometry, ...) are not followed: an opaque result
                return self.derived(("call", q, tuple(term_of(a) for a in args), tuple(sorted((k, term_of(v)) for k, v in kw.items()))))
            return self.call_function(fn, args, kw, node)
        if isinstance(fn, ClassVal):
            return self.instantiate(fn, args, kw, node)
        if isinstance(fn, ExtVal):
            return self.call_external(fn, args, kw, node)
        if isinstance(fn, Opaque):
            return Opaque(("call", fn.term, tuple(term_of(a) for a in args), tuple(sorted((k, term_of(v)) for k, v in kw.items()))))
        if isinstance(fn, Obj):
            m = self.find_method(fn, "__call__")
            if m is not None:
                return self.call(m, args, kw, node)
        raise Unknown("call of %r" % (fn,))

    HARMLESS_DECORATORS = {"property", "staticmethod", "classmethod", "allowed_mesh_types", "forbidden_mesh_types", "lru_cache", "cache",
                           "cached_property", "wraps", "abstractmethod", "contextmanager", "overload", "final", "override", "setter", "getter", "deleter",
                           "singledispatch", "singledispatchmethod", "register"}

    def dispatch_target(self, fn, args):
        """functools.singledispatch / singledispatchmethod: the implementation registered for the type of the dispatch argument"""
        nd = fn.node
        scope = getattr(nd, "_parent", None)
        body = getattr(scope, "body", [])
        if not args:
            raise Raised("TypeError: dispatch function requires at least 1 positional argument")
        best = None
        for st in body:
            if not isinstance(st, ast.FunctionDef) or st is nd:
                continue
            for d in st.decorator_list:
                e = d.func if isinstance(d, ast.Call) else d
                if not (isinstance(e, ast.Attribute) and e.attr == "register" and isinstance(e.value, ast.Name) and e.value.id == nd.name):
                    continue
                types = []
                if isinstance(d, ast.Call) and d.args:
                    types = [d.args[0]]
                else:
                    ps = st.args.posonlyargs + st.args.args
                    i = 1 if fn.bound is not None or (ps and ps[0].arg in ("self", "cls")) else 0
                    if len(ps) > i and ps[i].annotation is not None:
                        types = [ps[i].annotation]
                if not types:
                    raise Unknown("singledispatch registration without a type")
                tv = self.eval(types[0], Frame(fn.modname))
                if _b_isinstance(self, [args[0], tv], {}):
                    rank = len(self.mro(tv)) if isinstance(tv, ClassVal) else 1
                    if best is None or rank > best[0]:
                        best = (rank, st)
        # registrations written after the class / function: `Owner.name.register(T, impl)`
        mod = self.repo.modules.get(fn.modname)
        for st in (self.repo._module_level_stmts(mod) if mod is not None else []):
            c = st.value if isinstance(st, ast.Expr) else None
            if isinstance(c, ast.Call) and isinstance(c.func, ast.Attribute) and c.func.attr == "register" and len(c.args) == 2 \
                    and (isinstance(c.func.value, ast.Attribute) and c.func.value.attr == nd.name or isinstance(c.func.value, ast.Name) and c.func.value.id == nd.name):
                tv = self.eval(c.args[0], Frame(fn.modname))
                if _b_isinstance(self, [args[0], tv], {}):
                    impl = self.eval(c.args[1], Frame(fn.modname))
                    if not isinstance(impl, FuncVal):
                        raise Unknown("singledispatch registration of %r" % (impl,))
                    rank = len(self.mro(tv)) if isinstance(tv, ClassVal) else 1
                    if best is None or rank > best[0]:
                        best = (rank, impl.node)
        return best[1] if best else nd

    def call_function(self, fn, args, kw, node=None):
        nd = fn.node
        if not isinstance(nd, ast.Lambda):
            ds = self._decos(nd)
            odd = ds - self.HARMLESS_DECORATORS
            if odd:
                raise Unknown("function `%s` is wrapped by the decorator `%s`" % (fn.name, sorted(odd)[0]))
            if ds & {"singledispatch", "singledispatchmethod"}:
                tgt = self.dispatch_target(fn, args)
                if tgt is not nd:
                    fn = FuncVal(fn.modname, tgt, closure=fn.closure, bound=fn.bound, cls=fn.cls)
                    nd = tgt
        self.depth += 1
        if self.depth > 40:
            self.depth -= 1
            raise Unknown("call depth exceeded")
        try:
            fr = Frame(fn.modname, parent=fn.closure, fn=fn)
            a = nd.args
            pos = [x.arg for x in a.posonlyargs + a.args]
            vals = list(args)
            if fn.bound is not None:
                vals = [fn.bound] + vals
            defaults = [None] * (len(pos) - len(a.defaults)) + list(a.defaults)
            kw = dict(kw)
            for i, p in enumerate(pos):
                if i < len(vals):
                    fr.vars[p] = vals[i]
                elif p in kw:
                    fr.vars[p] = kw.pop(p)
                elif fn.defaults is not None and p in fn.defaults:
                    fr.vars[p] = fn.defaults[p]
                elif defaults[i] is not None:
                    fr.vars[p] = self.eval(defaults[i], Frame(fn.modname, parent=fn.closure))
                else:
                    raise Raised("TypeError: missing argument `%s` of %s" % (p, fn.name), node)
            extra = vals[len(pos):]
            if a.vararg:
                fr.vars[a.vararg.arg] = tuple(extra)
            elif extra:
                raise Raised("TypeError: too many arguments for %s" % fn.name, node)
            for p, d in zip(a.kwonlyargs, a.kw_defaults):
                if p.arg in kw:
                    fr.vars[p.arg] = kw.pop(p.arg)
                elif fn.defaults is not None and p.arg in fn.defaults:
                    fr.vars[p.arg] = fn.defaults[p.arg]
                elif d is not None:
                    fr.vars[p.arg] = self.eval(d, Frame(fn.modname, parent=fn.closure))
                else:
                    raise Raised("TypeError: missing keyword argument `%s`" % p.arg, node)
            if a.kwarg:
                fr.vars[a.kwarg.arg] = kw
            elif kw:
                raise Raised("TypeError: unexpected keyword argument(s) %s for %s" % (sorted(kw), fn.name), node)
            if isinstance(nd, ast.Lambda):
                return self.eval(nd.body, fr)
            is_gen = any(isinstance(n, (ast.Yield, ast.YieldFrom)) for n in au.walk(nd.body))
            if is_gen:
                def run(gen, _fr=fr, _nd=nd):
                    _fr.yields = gen
                    self.frames.append(_fr)
                    try:
                        self.exec_block(_nd.body, _fr)
                    except _Return:
                        pass
                    finally:
                        self.frames.pop()
                g = GenThread(self, run)
                if "contextmanager" in self._decos(nd):
                    return CtxGen(g)
                return LazyIter(g)
            self.frames.append(fr)
            try:
                self.exec_block(nd.body, fr)
            except _Return as r:
                self.last_return[id(nd)] = fr.cur
                return r.v
            finally:
                self.frames.pop()
            self.last_return[id(nd)] = None
            return None
        finally:
            self.depth -= 1

    def instantiate(self, cv, args, kw, node=None):
        h = self.hooks.get(("class", cv.name))
        if h is not None:
            return h(self, args, kw)
        if cv.name in IDENTITY_CALLS and len(args) == 1 and not kw:
            return args[0]
        if cv.modname not in self.interpret:
            if cv.name.endswith(("Exception", "Error")):
                return ("exc", cv.name, tuple(term_of(a) for a in args))
            o = Obj(cv, {"__opaque__": True, "__args__": list(args), "__kw__": dict(kw)})
            self.log.append(("new", cv.name, o))
            return o
        if self.class_attr(cv, "__new__")[1] is not None:
            raise Unknown("class %s defines __new__" % cv.name)
        odd = {au.src(d.func if isinstance(d, ast.Call) else d).split(".")[-1] for d in cv.node.decorator_list} - {"dataclass", "_dataclass", "total_ordering", "final"}
        if odd and not any(x.endswith("dataclass") for x in odd):
            raise Unknown("class %s is wrapped by the decorator `%s`" % (cv.name, sorted(odd)[0]))
        ext_bases = self.base_names(cv)
        if ext_bases & set(EXC_NAMES):
            return ("exc", cv.name, tuple(term_of(a) for a in args))
        if ext_bases & {"IntEnum", "IntFlag"} and len(args) == 1 and not kw:
            return args[0]
        if ext_bases & {"Enum", "Flag"}:
            raise Unknown("enumeration class %s" % cv.name)
        o = Obj(cv, {})
        owner, init = self.class_attr(cv, "__init__")
        if isinstance(init, ast.FunctionDef):
            self.call(FuncVal(owner.modname, init, bound=o, cls=owner), args, kw, node)
            return o
        # record classes (NamedTuple, @dataclass): the annotated class-level fields, in order, are the constructor parameters
        base_names = self.base_names(cv)
        decos = {self.ext_name(d.func if isinstance(d, ast.Call) else d, cv.modname) for d in cv.node.decorator_list}
        if "NamedTuple" in base_names or "dataclass" in decos:
            flds = []
            for c in reversed(self.mro(cv)):
                for st in c.node.body:
                    if isinstance(st, ast.AnnAssign) and isinstance(st.target, ast.Name) and st.target.id not in [f[0] for f in flds]:
                        flds.append((st.target.id, st.value, c.modname))
            kw = dict(kw)
            for i, (nm, dflt, mod) in enumerate(flds):
                if i < len(args):
                    o.fields[nm] = args[i]
                elif nm in kw:
                    o.fields[nm] = kw.pop(nm)
                elif dflt is not None:
                    dv = self.eval(dflt, Frame(mod))
                    if isinstance(dv, Opaque) and dflt is not None and isinstance(dflt, ast.Call) and au.call_tail(dflt) == "field":
                        fac = next((k.value for k in dflt.keywords if k.arg == "default_factory"), None)
                        dv = self.call(self.eval(fac, Frame(mod)), [], {}) if fac is not None else dv
                    o.fields[nm] = dv
                else:
                    raise Raised("TypeError: missing field `%s` of %s" % (nm, cv.name), node)
            if len(args) > len(flds) or kw:
                raise Raised("TypeError: unexpected arguments for record %s" % cv.name, node)
            if "NamedTuple" in base_names:
                o.fields["__tuple__"] = [f[0] for f in flds]
            else:
                o.fields["__fields__"] = [f[0] for f in flds]
                for d in cv.node.decorator_list:
                    if isinstance(d, ast.Call):
                        opts = {k.arg: au.const(k.value) for k in d.keywords}
                        if opts.get("order"):
                            o.fields["__order__"] = True
                        if opts.get("frozen") or opts.get("unsafe_hash"):
                            o.fields["__hashable__"] = True
            post = self.find_method(o, "__post_init__")
            if post is not None:
                self.call(post, [], {})
            return o
        if args or kw:
            bases_ext = [b for c in self.mro(cv) for b in c.node.bases if not self.repo._resolve_class_expr(self.repo.modules[c.modname], b)
                         and au.src(b) not in ("object", "ABC")]
            if bases_ext:
                raise Unknown("constructor of %s comes from a base class outside the package (%s)" % (cv.name, au.src(bases_ext[0])))
            raise Raised("TypeError: %s() takes no arguments" % cv.name, node)
        return o

    def call_external(self, fn, args, kw, node=None):
        h = self.hooks.get(("ext", fn.dotted))
        tail = fn.dotted.split(".")[-1]
        if h is None:
            h = self.hooks.get(("ext", tail))
        if h is not None:
            return h(self, args, kw)
        if tail in IDENTITY_CALLS and len(args) >= 1:
            return args[0]
        if tail in ("warn", "print", "wraps"):
            return None
        if fn.dotted.startswith("typing."):
            return Opaque(("typing", fn.dotted))
        arr = any(isinstance(a, Opaque) and a.pytype == "array" for a in args)
        return self.derived(("call", fn.dotted, tuple(term_of(a) for a in args), tuple(sorted((k, term_of(v)) for k, v in kw.items()))),
                            "array" if arr and tail not in ("any", "all", "sum", "len", "max", "min") else None)


class SuperVal:
    def __init__(self, obj, cls):
        self.obj, self.cls = obj, cls


# ------------------------------------------------------------------------------------------------ native methods
def _nm(name):
    def deco(fn):
        fn._nm = name
        return fn
    return deco


def _list_methods(ev, o, name):
    def append(ev_, a, k):
        o.append(a[0])

    def extend(ev_, a, k):
        ev.list_extend(o, a[0])

    def insert(ev_, a, k):
        i = ev.index_int(a[0])
        if not isinstance(i, int):
            raise Unknown("insert at a symbolic index")
        o.insert(i, a[1])

    def pop(ev_, a, k):
        if not o:
            raise Raised("IndexError: pop from empty list")
        i = ev.index_int(a[0]) if a else -1
        if not isinstance(i, int):
            raise Unknown("pop at a symbolic index")
        return o.pop(i)

    def index(ev_, a, k):
        for i, x in enumerate(o):
            if ev.equal(x, a[0]):
                return i
        raise Raised("ValueError: not in list")

    def count(ev_, a, k):
        return sum(1 for x in o if ev.equal(x, a[0]))

    def remove(ev_, a, k):
        for i, x in enumerate(o):
            if ev.equal(x, a[0]):
                del o[i]
                return
        raise Raised("ValueError: not in list")

    def sort(ev_, a, k):
        o[:] = _sorted(ev, o, k)

    def popleft(ev_, a, k):
        if not o:
            raise Raised("IndexError: pop from an empty deque")
        return o.pop(0)

    def appendleft(ev_, a, k):
        o.insert(0, a[0])

    def reverse(ev_, a, k):
        o.reverse()

    def copy(ev_, a, k):
        return o.copy() if isinstance(o, SList) else SList(items=list(o))

    def clear(ev_, a, k):
        del o[:]
        if isinstance(o, SList):
            o.base = 0

    def __iter__(ev_, a, k):
        return LazyIter(ev.iter_live(o))

    def __len__(ev_, a, k):
        return _b_len(ev, [o], {})

    def __getitem__(ev_, a, k):
        return ev.getitem(o, a[0])
    if symlist(o) and name in ("insert", "pop", "index", "count", "remove", "sort", "reverse"):
        def unsupported(ev_, a, k):
            raise Unknown("list.%s on a symbolic list" % name)
        return unsupported
    return locals().get(name)


def _sorted(ev, seq, kw):
    key = kw.get("key")
    items = list(seq)
    ks = [ev.call(key, [x], {}) for x in items] if key is not None else items

    def cmp(i, j):
        if ev.compare(ast.Lt(), ks[i], ks[j]):
            return -1
        if ev.compare(ast.Lt(), ks[j], ks[i]):
            return 1
        return 0
    order = sorted(range(len(items)), key=functools.cmp_to_key(cmp))
    if kw.get("reverse"):
        order.reverse()
    return [items[i] for i in order]


def _dict_methods(ev, o, name):
    def get(ev_, a, k):
        return o.get(ev.hashable(a[0]), a[1] if len(a) > 1 else k.get("default"))

    def keys(ev_, a, k):
        return o.keys()

    def values(ev_, a, k):
        return o.values()

    def items(ev_, a, k):
        return o.items()

    def pop(ev_, a, k):
        key = ev.hashable(a[0])
        if key in o:
            return o.pop(key)
        if len(a) > 1:
            return a[1]
        raise Raised(("KeyError", term_of(key)))

    def setdefault(ev_, a, k):
        return o.setdefault(ev.hashable(a[0]), a[1] if len(a) > 1 else None)

    def update(ev_, a, k):
        for x in a:
            if isinstance(x, dict):
                o.update(x)
            else:
                for kk, vv in ev.iterate(x):
                    o[ev.hashable(kk)] = vv
        o.update(k)

    def copy(ev_, a, k):
        return dict(o)

    def clear(ev_, a, k):
        o.clear()

    def __len__(ev_, a, k):
        return len(o)

    def __iter__(ev_, a, k):
        return LazyIter(iter(list(o)))

    def __contains__(ev_, a, k):
        return ev.hashable(a[0]) in o

    def __getitem__(ev_, a, k):
        return ev.getitem(o, a[0])
    return locals().get(name)


def _set_methods(ev, o, name):
    def add(ev_, a, k):
        o.add(ev.hashable(a[0]))

    def discard(ev_, a, k):
        o.discard(ev.hashable(a[0]))

    def remove(ev_, a, k):
        x = ev.hashable(a[0])
        if x not in o:
            raise Raised("KeyError")
        o.remove(x)

    def update(ev_, a, k):
        for s in a:
            for x in ev.iterate(s):
                o.add(ev.hashable(x))

    def union(ev_, a, k):
        r = set(o)
        for s in a:
            r |= set(ev.hashable(x) for x in ev.iterate(s))
        return r

    def intersection(ev_, a, k):
        r = set(o)
        for s in a:
            r &= set(ev.hashable(x) for x in ev.iterate(s))
        return r

    def difference(ev_, a, k):
        r = set(o)
        for s in a:
            r -= set(ev.hashable(x) for x in ev.iterate(s))
        return r

    def copy(ev_, a, k):
        return set(o)

    def clear(ev_, a, k):
        o.clear()

    def pop(ev_, a, k):
        if not o:
            raise Raised("KeyError: pop from an empty set")
        return o.pop()

    def __len__(ev_, a, k):
        return len(o)

    def __iter__(ev_, a, k):
        return LazyIter(iter(list(o)))

    def __contains__(ev_, a, k):
        return ev.hashable(a[0]) in o
    return locals().get(name)


def _slist_methods(ev, o, name):
    def append(ev_, a, k):
        o.items.append(a[0])

    def extend(ev_, a, k):
        ev.iop(ast.Add(), o, a[0], None)

    def copy(ev_, a, k):
        return o.copy()

    def __iter__(ev_, a, k):
        return ev.iterate(o)

    def __len__(ev_, a, k):
        return ev.arith(ast.Add(), o.base, len(o.items))

    def __getitem__(ev_, a, k):
        return ev.getitem(o, a[0])
    return locals().get(name)


def _attr_methods(ev, o, name):
    def _expand(ev_, a, k):
        return None

    def clear(ev_, a, k):
        o.data.clear()

    def empty(ev_, a, k):
        return not o.data

    def __len__(ev_, a, k):
        return len(o.data)

    def __iter__(ev_, a, k):
        return LazyIter(iter(list(o.data)))

    def __contains__(ev_, a, k):
        return ev.hashable(a[0]) in o.data
    return locals().get(name)


def _str_methods(ev, o, name):
    if name in ("format",):
        return lambda ev_, a, k: Opaque(("fmt", o))
    if name in ("lower", "upper", "strip", "split", "startswith", "endswith", "join", "replace", "lstrip", "rstrip"):
        def m(ev_, a, k):
            try:
                return getattr(o, name)(*a)
            except Exception:
                raise Unknown("str.%s on symbolic arguments" % name)
        return m
    return None


def _native_method(self, o, name):
    fn = None
    if isinstance(o, list):
        fn = _list_methods(self, o, name)
    elif isinstance(o, dict):
        fn = _dict_methods(self, o, name)
    elif isinstance(o, (set, frozenset)):
        fn = _set_methods(self, o, name)
    elif isinstance(o, AttrModel):
        fn = _attr_methods(self, o, name)
    elif isinstance(o, str):
        fn = _str_methods(self, o, name)
    elif isinstance(o, tuple):
        if name == "index":
            fn = _list_methods(self, list(o), "index")
        elif name == "count":
            fn = _list_methods(self, list(o), "count")
        elif name == "__iter__":
            fn = lambda ev_, a, k: LazyIter(iter(list(o)))
        elif name == "__len__":
            fn = lambda ev_, a, k: len(o)
    elif isinstance(o, (type({}.keys()), type({}.values()), type({}.items()))):
        if name == "__iter__":
            fn = lambda ev_, a, k: LazyIter(iter(list(o)))
        elif name == "__len__":
            fn = lambda ev_, a, k: len(o)
    if fn is None:
        return None
    return Native(name, fn)


Ev.native_method = _native_method


# ------------------------------------------------------------------------------------------------ builtins
def _b_len(ev, a, k):
    v = a[0]
    if isinstance(v, Obj) and "__tuple__" in v.fields:
        return len(v.fields["__tuple__"])
    if isinstance(v, Model):
        return v.hb_len(ev)
    if symlist(v):
        return ev.arith(ast.Add(), v.base, len(v))
    if isinstance(v, (list, tuple, dict, set, frozenset, str, range, type({}.keys()), type({}.values()), type({}.items()))):
        return len(v)
    if isinstance(v, AttrModel):
        return len(v.data)
    if isinstance(v, Obj):
        m = ev.find_method(v, "__len__")
        if m is None:
            raise Raised("TypeError: object of type %s has no len()" % v.cls.name)
        return ev.call(m, [], {})
    if isinstance(v, Opaque):
        return Opaque(("len", v.term))
    raise Unknown("len of %r" % (v,))


def _b_range(ev, a, k):
    xs = [ev.nums.norm(x) for x in a]
    if len(xs) in (2, 3) and not all(isinstance(x, int) for x in xs[:2]) and (len(xs) == 2 or xs[2] == 1):
        n = ev.nums.norm(ev.arith(ast.Sub(), xs[1], xs[0]))
        if isinstance(n, int):          # symbolic start, concrete length
            return SList(items=[ev.arith(ast.Add(), xs[0], i) for i in range(max(n, 0))])
    if not all(isinstance(x, int) for x in xs):
        raise Unknown("range over a symbolic bound (%s)" % ", ".join(repr(x) for x in xs))
    return range(*xs)


def _b_sum(ev, a, k):
    items = ev.iterate(a[0])
    tot = a[1] if len(a) > 1 else k.get("start", 0)
    for x in items:
        tot = ev.arith(ast.Add(), tot, x)
    return tot


def _b_minmax(which):
    def f(ev, a, k):
        items = ev.iterate(a[0]) if len(a) == 1 else list(a)
        items = [x for x in items]
        if not items:
            if "default" in k:
                return k["default"]
            raise Raised("ValueError: empty sequence")
        key = k.get("key")
        best = items[0]
        bk = ev.call(key, [best], {}) if key else best
        for x in items[1:]:
            xk = ev.call(key, [x], {}) if key else x
            if ev.compare(ast.Lt() if which == "min" else ast.Gt(), xk, bk):
                best, bk = x, xk
        return best
    return f


def _b_isinstance(ev, a, k):
    v, c = a
    cs = c if isinstance(c, tuple) else (c,)
    for c in cs:
        if isinstance(c, Native):
            t = {"list": list, "tuple": tuple, "set": (set, frozenset), "dict": dict, "int": int, "float": (float, Fraction), "str": str, "bool": bool}.get(c.name)
            if t is None:
                continue
            if isinstance(v, Opaque):
                if v.pytype == c.name:
                    return True
                continue
            if t is int and isinstance(v, (Sym, Poly)):
                return True
            if t is list and isinstance(v, SList):
                return True
            if isinstance(v, t) and not (t is int and isinstance(v, bool)):
                return True
        elif isinstance(c, ClassVal):
            if isinstance(v, Obj) and any(x.node is c.node for x in ev.mro(v.cls)):
                return True
        elif isinstance(c, ExtVal):
            if isinstance(v, Opaque) and v.pytype == "array" and c.dotted.endswith("ndarray"):
                return True
            if isinstance(v, Model) and c.dotted.endswith("ndarray") and getattr(v, "is_array", False):
                return True
        else:
            raise Unknown("isinstance against %r" % (c,))
    return False


def _b_getattr(ev, a, k):
    if len(a) > 2:
        return ev.getattr(a[0], a[1]) if ev.hasattr(a[0], a[1]) else a[2]
    return ev.getattr(a[0], a[1])


def _b_type(ev, a, k):
    v = a[0]
    if isinstance(v, Obj):
        return v.cls
    for n, t in (("bool", bool), ("int", int), ("float", float), ("str", str), ("list", list), ("tuple", tuple), ("dict", dict), ("set", set)):
        if type(v) is t:
            return Native(n, BUILTINS[n])
    return Opaque(("type", term_of(v)))


def _lazy_zip(ev, a, k=None):
    its = [ev.pyit(x) for x in a]
    if k and k.get("strict"):
        def gen():
            sent = object()
            for t in itertools.zip_longest(*its, fillvalue=sent):
                if any(x is sent for x in t):
                    raise Raised("ValueError: zip() arguments have different lengths")
                yield t
        return LazyIter(gen())
    return LazyIter(zip(*its)) if its else LazyIter(iter(()))


def _b_enumerate(ev, a, k):
    start = ev.nums.norm(a[1] if len(a) > 1 else k.get("start", 0))

    def gen():
        for i, x in enumerate(ev.pyit(a[0])):
            yield (ev.arith(ast.Add(), start, i), x)
    return LazyIter(gen())


def _b_map(ev, a, k):
    its = [ev.pyit(x) for x in a[1:]]

    def gen():
        for xs in zip(*its):
            yield ev.call(a[0], list(xs), {})
    return LazyIter(gen())


def _b_filter(ev, a, k):
    def gen():
        for x in ev.pyit(a[1]):
            if ev.truth(ev.call(a[0], [x], {}) if a[0] is not None else x):
                yield x
    return LazyIter(gen())


def _b_iter(ev, a, k):
    v = a[0]
    if isinstance(v, LazyIter):
        return v
    if len(a) > 1:
        raise Unknown("iter(callable, sentinel)")
    if isinstance(v, (int, float, Fraction, Sym, Poly)) or v is None:
        raise Raised("TypeError: object is not iterable")
    return LazyIter(ev.iter_live(v))


def _b_list(ev, a, k):
    if not a:
        return SList()
    if isinstance(a[0], Opaque):
        return Opaque(("list", a[0].term), "list")
    if isinstance(a[0], SList):
        return a[0].copy()
    return SList(items=ev.iterate(a[0]))


def _b_tuple(ev, a, k):
    if not a:
        return ()
    if isinstance(a[0], Opaque):
        return Opaque(("tuple", a[0].term), "tuple")
    return tuple(ev.iterate(a[0]))


def _b_dict(ev, a, k):
    d = {}
    if a:
        if isinstance(a[0], dict):
            d.update(a[0])
        else:
            for kk, vv in ev.iterate(a[0]):
                d[ev.hashable(kk)] = vv
    d.update(k)
    return d


def _b_int(ev, a, k):
    if not a:
        return 0
    v = ev.nums.norm(a[0])
    if isinstance(v, (int, Sym, Poly)):
        return v
    if isinstance(v, (float, Fraction)):
        return int(v)
    if isinstance(v, str):
        try:
            return int(v)
        except ValueError:
            raise Raised("ValueError")
    if isinstance(v, Opaque):
        return Opaque(("int", v.term))
    raise Unknown("int(%r)" % (v,))


def _b_next(ev, a, k):
    if not isinstance(a[0], LazyIter):
        raise Raised("TypeError: object is not an iterator")
    try:
        return next(a[0].it)
    except StopIteration:
        if len(a) > 1:
            return a[1]
        raise Raised("StopIteration")


def _b_abs(ev, a, k):
    s = ev.nums.sign(a[0])
    if s is None:
        raise Unknown("abs of a symbolic value")
    return a[0] if s >= 0 else ev.arith(ast.Sub(), 0, a[0])


def _std_index(ev, a, k):
    v = ev.nums.norm(a[0])
    if isinstance(v, bool):
        return int(v)
    if isinstance(v, (int, Sym, Poly)):
        return v
    if isinstance(v, Opaque):
        raise Unknown("operator.index of an unknown value")
    raise Raised("TypeError: object cannot be interpreted as an integer")


BUILTINS = {
    "hash": lambda ev, a, k: ("hash", ev.hashable(a[0])),
    "property": lambda ev, a, k: PropVal(a[0] if a else k.get("fget")),
    "len": _b_len, "range": _b_range, "sum": _b_sum, "min": _b_minmax("min"), "max": _b_minmax("max"),
    "isinstance": _b_isinstance, "getattr": _b_getattr, "type": _b_type, "enumerate": _b_enumerate,
    "list": _b_list, "tuple": _b_tuple, "dict": _b_dict, "int": _b_int, "next": _b_next, "abs": _b_abs,
    "hasattr": lambda ev, a, k: ev.hasattr(a[0], a[1]),
    "setattr": lambda ev, a, k: ev.setattr(a[0], a[1], a[2]),
    "set": lambda ev, a, k: set(ev.hashable(x) for x in ev.iterate(a[0])) if a else set(),
    "frozenset": lambda ev, a, k: frozenset(ev.hashable(x) for x in ev.iterate(a[0])) if a else frozenset(),
    "sorted": lambda ev, a, k: _sorted(ev, ev.iterate(a[0]), k),
    "reversed": lambda ev, a, k: LazyIter(iter(list(reversed(ev.iterate(a[0]))))),
    "zip": lambda ev, a, k: _lazy_zip(ev, a, k),
    "map": _b_map,
    "filter": _b_filter,
    "any": lambda ev, a, k: any(ev.truth(x) for x in ev.iterate(a[0])),
    "all": lambda ev, a, k: all(ev.truth(x) for x in ev.iterate(a[0])),
    "bool": lambda ev, a, k: ev.truth(a[0]) if a else False,
    "float": lambda ev, a, k: a[0] if a else 0.0,
    "str": lambda ev, a, k: a[0] if a and isinstance(a[0], str) else Opaque(("str", term_of(a[0]) if a else "")),
    "repr": lambda ev, a, k: Opaque(("repr", term_of(a[0]))),
    "print": lambda ev, a, k: None,
    "iter": _b_iter,
    "id": lambda ev, a, k: id(a[0]),
    "callable": lambda ev, a, k: isinstance(a[0], (FuncVal, Native, ClassVal)),
    "issubclass": lambda ev, a, k: isinstance(a[0], ClassVal) and isinstance(a[1], ClassVal) and any(x.node is a[1].node for x in ev.mro(a[0])),
    "object": lambda ev, a, k: Opaque(("object",)),
    "complex": lambda ev, a, k: Opaque(("complex",)),
    "round": lambda ev, a, k: a[0],
    "divmod": lambda ev, a, k: (ev.arith(ast.FloorDiv(), a[0], a[1]), ev.arith(ast.Mod(), a[0], a[1])),
}


# ------------------------------------------------------------------------------------------------ exploration of the decision tree
class Outcome:
    """one explored path: decisions taken (key, value), the value returned by `run` or the exception it ended with"""
    def __init__(self, asked, value=None, raised=None, ev=None, unknown=None):
        self.asked, self.value, self.raised, self.ev, self.unknown = asked, value, raised, ev, unknown

    def cond(self, key_prefix):
        return [(k, v) for k, v in self.asked if k[:len(key_prefix)] == key_prefix]


def explore(setup, limit=256):
    """setup(decisions) -> (Ev, thunk); thunk() runs the evaluation and returns its value.  Enumerates every combination of answers
    to the undetermined conditions met (depth first).  Raises Unknown when more than `limit` paths exist."""
    out = []
    todo = [[]]
    while todo:
        dec = todo.pop()
        ev, thunk = setup(dec)
        try:
            o = Outcome(None, value=thunk(), ev=ev)
        except Raised as r:
            o = Outcome(None, raised=r, ev=ev)
        except (_Break, _Continue):
            o = Outcome(None, ev=ev, unknown=Unknown("break / continue outside a loop"))
        except Unknown as u:
            o = Outcome(None, ev=ev, unknown=u)
        except RecursionError:
            o = Outcome(None, ev=ev, unknown=Unknown("recursion limit"))
        except AnalysisError:
            raise
        except Exception as x:  # a gap of the model, not a property of the code
            import os
            if os.environ.get("HB_DEBUG"):
                raise
            o = Outcome(None, ev=ev, unknown=Unknown("evaluator: %s: %s" % (type(x).__name__, x)))
        ev.aborting = True
        for g in ev.gens:
            try:
                g.close()
            except BaseException:
                pass
        ev.aborting = False
        o.asked = list(ev.asked)
        o.derived = list(ev.derived_asked)
        if o.derived and o.unknown is None:
            o.unknown = Unknown("the path depends on a value the evaluator does not model: %s" % (o.derived[0],))
        out.append(o)
        for i in range(len(dec), len(o.asked)):
            todo.append([v for _, v in o.asked[:i]] + [not o.asked[i][1]])
        if len(out) + len(todo) > limit:
            raise Unknown("more than %d paths on the template" % limit)
    return out


# ------------------------------------------------------------------------------------------------ models of a few standard library functions
class DefaultDict(dict):
    def __init__(self, factory):
        dict.__init__(self)
        self.factory = factory


def _deepcopy(ev, v, memo=None):
    memo = {} if memo is None else memo
    if id(v) in memo:
        return memo[id(v)]
    if isinstance(v, SList):
        r = SList(v.base, v.elem, [], v.name)
        memo[id(v)] = r
        r.extend(_deepcopy(ev, x, memo) for x in v)
        return r
    if isinstance(v, list):
        r = SList()
        memo[id(v)] = r
        r.extend(_deepcopy(ev, x, memo) for x in v)
        return r
    if isinstance(v, tuple):
        return tuple(_deepcopy(ev, x, memo) for x in v)
    if isinstance(v, DefaultDict):
        r = DefaultDict(v.factory)
        memo[id(v)] = r
        for k, x in v.items():
            r[k] = _deepcopy(ev, x, memo)
        return r
    if isinstance(v, dict):
        r = {}
        memo[id(v)] = r
        for k, x in v.items():
            r[k] = _deepcopy(ev, x, memo)
        return r
    if isinstance(v, set):
        return set(v)
    if isinstance(v, AttrModel):
        r = AttrModel(v.type, v.elemsize, dict(v.data))
        if getattr(v, "dense", False):
            r.dense = True
        return r
    if isinstance(v, Obj):
        r = Obj(v.cls, {})
        memo[id(v)] = r
        for k, x in v.fields.items():
            r.fields[k] = _deepcopy(ev, x, memo)
        return r
    return v


def _shallow(ev, v):
    if isinstance(v, SList):
        return v.copy()
    if isinstance(v, list):
        return SList(items=list(v))
    if isinstance(v, DefaultDict):
        r = DefaultDict(v.factory)
        r.update(v)
        return r
    if isinstance(v, dict):
        return dict(v)
    if isinstance(v, set):
        return set(v)
    if isinstance(v, Obj):
        return Obj(v.cls, dict(v.fields))
    return v


def _std_chain(ev, a, k):
    def gen():
        for x in a:
            for y in ev.pyit(x):
                yield y
    return LazyIter(gen())


def _once(lst):
    return LazyIter(iter(list(lst)))


def _std_product(ev, a, k):
    seqs = [ev.iterate(x) for x in a] * ev.index_int(k.get("repeat", 1))
    return _once([tuple(t) for t in itertools.product(*seqs)])


def _std_partial(ev, a, k):
    fn, pre, prek = a[0], list(a[1:]), dict(k)
    return Native("partial", lambda ev_, b, kk: ev_.call(fn, pre + list(b), {**prek, **kk}))


def _std_reduce(ev, a, k):
    items = ev.iterate(a[1])
    if len(a) > 2:
        acc = a[2]
    elif items:
        acc, items = items[0], items[1:]
    else:
        raise Raised("TypeError: reduce() of empty sequence")
    for x in items:
        acc = ev.call(a[0], [acc, x], {})
    return acc


def _std_islice(ev, a, k):
    xs = [ev.index_int(x) if x is not None else None for x in a[1:]]
    if not all(x is None or isinstance(x, int) for x in xs):
        raise Unknown("islice with symbolic bounds")
    return LazyIter(itertools.islice(ev.pyit(a[0]), *xs))


def _std_repeat(ev, a, k):
    n = ev.index_int(a[1] if len(a) > 1 else k.get("times"))
    if not isinstance(n, int):
        raise Unknown("itertools.repeat without a concrete count")
    return _once([a[0]] * n)


def _std_accumulate(ev, a, k):
    out, acc = SList(), None
    for i, x in enumerate(ev.iterate(a[0])):
        acc = x if i == 0 else (ev.call(a[1], [acc, x], {}) if len(a) > 1 else ev.arith(ast.Add(), acc, x))
        out.append(acc)
    return _once(out)


def _std_zip_longest(ev, a, k):
    seqs = [ev.iterate(x) for x in a]
    return _once([tuple(t) for t in itertools.zip_longest(*seqs, fillvalue=k.get("fillvalue"))])


def _std_counter(ev, a, k):
    d = DefaultDict(Native("int", lambda ev_, b, kk: 0))
    if a:
        for x in ev.iterate(a[0]):
            x = ev.hashable(x)
            d[x] = d.get(x, 0) + 1
    return d


def _std_cycle(ev, a, k):
    items = ev.iterate(a[0])
    return LazyIter(itertools.cycle(items))


def _std_count(ev, a, k):
    start = a[0] if a else k.get("start", 0)
    step = a[1] if len(a) > 1 else k.get("step", 1)

    def gen():
        x = start
        while True:
            yield x
            x = ev.arith(ast.Add(), x, step)
    return LazyIter(gen())


def _std_groupby(ev, a, k):
    key = a[1] if len(a) > 1 else k.get("key")
    out, cur, curk = SList(), None, _MISSING
    for x in ev.iterate(a[0]):
        kx = ev.call(key, [x], {}) if key is not None else x
        if curk is _MISSING or not ev.equal(kx, curk):
            cur = SList()
            out.append((kx, cur))
            curk = kx
        cur.append(x)
    return _once([(kx, _once(g)) for kx, g in out])


STDLIB = {
    "itertools.tee": lambda ev, a, k: (lambda items: tuple(_once(items) for _ in range(ev.index_int(a[1]) if len(a) > 1 else 2)))(ev.iterate(a[0])),
    "itertools.groupby": _std_groupby,
    "itertools.cycle": _std_cycle,
    "itertools.count": _std_count,
    "copy.deepcopy": lambda ev, a, k: _deepcopy(ev, a[0]),
    "copy.copy": lambda ev, a, k: _shallow(ev, a[0]),
    "itertools.chain": _std_chain,
    "itertools.chain.from_iterable": lambda ev, a, k: LazyIter(y for x in ev.pyit(a[0]) for y in ev.pyit(x)),
    "itertools.product": _std_product,
    "itertools.combinations": lambda ev, a, k: _once([tuple(t) for t in itertools.combinations(ev.iterate(a[0]), ev.index_int(a[1]))]),
    "itertools.permutations": lambda ev, a, k: _once([tuple(t) for t in itertools.permutations(ev.iterate(a[0]), *[ev.index_int(x) for x in a[1:]])]),
    "itertools.pairwise": lambda ev, a, k: (lambda s: _once(list(zip(s, s[1:]))))(ev.iterate(a[0])),
    "itertools.islice": _std_islice,
    "itertools.repeat": _std_repeat,
    "itertools.accumulate": _std_accumulate,
    "itertools.zip_longest": _std_zip_longest,
    "itertools.starmap": lambda ev, a, k: LazyIter(ev.call(a[0], list(ev.iterate(t)), {}) for t in ev.pyit(a[1])),
    "functools.partial": _std_partial,
    "functools.reduce": _std_reduce,
    "operator.itemgetter": lambda ev, a, k: Native("itemgetter", (lambda ev_, b, kk: ev_.getitem(b[0], a[0])) if len(a) == 1
                                                   else (lambda ev_, b, kk: tuple(ev_.getitem(b[0], i) for i in a))),
    "operator.attrgetter": lambda ev, a, k: Native("attrgetter", lambda ev_, b, kk: ev_.getattr(b[0], a[0])),
    "operator.index": _std_index,
    "operator.add": lambda ev, a, k: ev.arith(ast.Add(), a[0], a[1]),
    "operator.sub": lambda ev, a, k: ev.arith(ast.Sub(), a[0], a[1]),
    "operator.mul": lambda ev, a, k: ev.arith(ast.Mult(), a[0], a[1]),
    "collections.defaultdict": lambda ev, a, k: DefaultDict(a[0] if a else None),
    "collections.OrderedDict": lambda ev, a, k: _b_dict(ev, a, k),
    "collections.Counter": _std_counter,
    "collections.deque": lambda ev, a, k: SList(items=ev.iterate(a[0]) if a else []),
    "math.floor": lambda ev, a, k: _b_int(ev, a, k),
    "math.isclose": lambda ev, a, k: ev.equal(a[0], a[1]),
}


def _call_external_std(self, fn, args, kw, node=None):
    h = self.hooks.get(("ext", fn.dotted))
    if h is None and fn.dotted in STDLIB:
        return STDLIB[fn.dotted](self, args, kw)
    return _call_external_orig(self, fn, args, kw, node)


_call_external_orig = Ev.call_external
Ev.call_external = _call_external_std
