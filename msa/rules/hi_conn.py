"""Connectivity obligations of a generator, decided on the index tables obtained by bounded evaluation (hi_exec) - group I (C14 / C19).

For one generator the tables are computed for every assignment of its integer parameters in a small admissible box (unequal
resolutions and minimal values included) and of its boolean switches.  The clauses

    range    every stored index / vertex-attribute key / vertex store lies in [0, |V|); evaluable index code does not raise
    table    the face table is a consistently oriented edge-manifold of the named topology (no repeated face, no face with a repeated
             vertex, every directed edge at most once, closed: every edge twice, open: at most twice and the expected number of border
             loops, one connected component); volume cells are permutations of all vertices; polylines link the expected pairs
    counts   |V|, |F_k|, |E| equal the documented polynomials; V - E + F equals the Euler characteristic of the named shape
             (allocated vertices that no face references show up here)
    assoc    a vertex attribute written for key k carries the leading coordinates of vertex k; every sample of a parameter
             linspace is consumed (the grid is covered up to its last parameter value)

are reported with the smallest witness.  A generator whose evaluation is `Undecidable` yields an *undecided* obligation."""
from __future__ import annotations
import ast
from fractions import Fraction
from .. import au
from ..sym import Poly
from . import hi_exec as X
from . import gen_c1419 as G


class GenSpec:
    def __init__(self, mod, name, ints=None, switches=(), fixed=None, topo=None, counts=None, self_obj=None, polyline=None,
                 assoc=False, samples=False, cells=False, want_faces=True, admit=None, edge_rows=False, stubs=None, float_defaults=False):
        self.mod, self.name = mod, name
        self.ints = dict(ints or {})
        self.switches = list(switches)
        self.fixed = dict(fixed or {})
        self.topo, self.counts, self.self_obj, self.polyline = topo, counts, self_obj, polyline
        self.assoc, self.samples, self.cells, self.want_faces = assoc, samples, cells, want_faces
        self.stubs = stubs or {}     # name -> FunctionDef standing for a package function (an abstraction of its result)
        self.float_defaults = float_defaults     # keep literal float defaults (a generator of literal points whose scale has a default)
        self.admit = admit            # predicate on the parameter assignment (non rectangular admissible domains)
        self.edge_rows = edge_rows    # the two ends of an edge are computed from the same rows of the input arrays

    def topo_of(self, p):
        return self.topo(p) if callable(self.topo) else self.topo

    def short(self):
        return self.name.split(".")[-1]


def _opaque_defaults(fn, spec):
    """geometric parameters (float / Vec defaults, or no default) are opaque to the connectivity evaluation"""
    a = fn.args
    pos = a.posonlyargs + a.args
    defaults = dict(zip([p.arg for p in pos[len(pos) - len(a.defaults):]], a.defaults)) if a.defaults else {}
    for p, d in zip(a.kwonlyargs, a.kw_defaults):
        if d is not None:
            defaults[p.arg] = d
    out = {}
    for p in au.params(fn, skip_self=True):
        if p in spec.ints or p in spec.switches or p in spec.fixed:
            continue
        d = defaults.get(p)
        if spec.float_defaults and isinstance(d, ast.Constant) and isinstance(d.value, float):
            continue
        if d is None or (isinstance(d, ast.Constant) and isinstance(d.value, float)) or isinstance(d, (ast.Call, ast.BinOp, ast.UnaryOp, ast.Attribute)):
            out[p] = X.Opaque(p)
    return out


def evaluate(ctx, spec):
    fn = ctx.repo.func(spec.mod, spec.name)       # AnalysisError if the public generator is gone
    formal = set(au.params(fn))
    switches = [s for s in spec.switches if s in formal]
    fixed = dict(_opaque_defaults(fn, spec))
    fixed.update(spec.fixed)
    runs = X.explore(ctx.repo, spec.mod, fn, spec.ints, switches, fixed, self_obj=spec.self_obj, admit=spec.admit, stubs=spec.stubs)
    return fn, runs


def _sw_label(run, spec):
    sw = {k: v for k, v in run.params.items() if k in spec.switches}
    return (" (" + ", ".join(f"{k}={v}" for k, v in sorted(sw.items())) + ")") if sw else ""


def _ints(run, spec):
    return {k: v for k, v in run.params.items() if k in spec.ints}


def _witness(run):
    return "witness " + (run.label() or "no parameters")


def check_generator(ctx, spec, rules):
    """rules: clause -> rule id ('range', 'table', 'counts', 'assoc').  Returns the list of runs (for further role-based checks)."""
    fn, runs = evaluate(ctx, spec)
    site = ctx.site(spec.mod, fn)
    name = spec.short()
    R = rules
    und = [r for r in runs if r.status == "undecidable" or (r.status == "crash" and not r.info.startswith("IndexError"))]
    crash = [r for r in runs if r.status == "crash" and r.info.startswith("IndexError")]
    ok = [r for r in runs if r.status == "ok"]
    if und:
        r = und[0]
        ctx.undecided(R["range"], ctx.site(spec.mod, fn, r.node) if r.node is not None and _inside(fn, r.node) else site,
                      f"connectivity of {name} cannot be evaluated", f"{r.info} ({_witness(r)})")
    if crash:
        r = crash[0]
        ctx.fail(R["range"], ctx.site(spec.mod, fn, r.node) if r.node is not None and _inside(fn, r.node) else site,
                 f"{name} fails on admissible parameters ({r.info.split(':')[0]})", f"{_witness(r)}: {r.info}")
    if not ok:
        if not und and not crash:
            ctx.undecided(R["range"], site, f"connectivity of {name} cannot be evaluated",
                          "every admissible parameter assignment is rejected by a raise")
        return runs
    # ------------------------------------------------------------------ range
    bad_range = None
    not_int = None
    for r in ok:
        V = r.nverts()
        for kind in ("faces", "edges", "cells"):
            for t, raw, node in r.table(kind):
                if t is None:
                    if not_int is None:
                        not_int = (r, kind, raw, node)
                    continue
                if any(not (0 <= i < V) for i in t) and bad_range is None:
                    bad_range = (r, f"a stored {kind[:-1]} index is outside [0, |V|)", f"{kind[:-1]} {t} with {V} vertices", node)
        for attr in r.mesh.c["vertices"].attrs.values():
            for key, val, size, node in attr.writes:
                if isinstance(key, int) and not isinstance(key, bool):
                    if not (0 <= key < V) and bad_range is None:
                        bad_range = (r, "a vertex-attribute key is outside [0, |V|)", f"key {key} with {V} vertices", node)
                elif not_int is None:
                    not_int = (r, "vertex-attribute key", key, node)
        for key, node in r.mesh.c["vertices"].stores:
            if isinstance(key, int) and not isinstance(key, bool):
                if not (-V <= key < V) and bad_range is None:
                    bad_range = (r, "a vertex is stored at an index outside [0, |V|)", f"index {key} with {V} vertices", node)
            elif not_int is None:
                not_int = (r, "vertex store", key, node)
    if not_int is not None:
        r, kind, raw, node = not_int
        is_real = any(isinstance(x, Fraction) for x in (raw if isinstance(raw, (tuple, list)) else [raw]))
        s = ctx.site(spec.mod, fn, node) if node is not None and _inside(fn, node) else site
        if is_real:
            ctx.fail(R["range"], s, f"a stored {kind} index is not an integer", f"{_witness(r)}: {raw}")
        else:
            ctx.undecided(R["range"], s, f"a stored {kind} index of {name} cannot be evaluated", f"{_witness(r)}: {raw!r}")
    if bad_range is not None:
        r, construct, detail, node = bad_range
        ctx.fail(R["range"], ctx.site(spec.mod, fn, node) if node is not None and _inside(fn, node) else site, construct,
                 f"{_witness(r)}: {detail}")
    elif not_int is None:
        ctx.ok(R["range"], site, f"{name}: every stored index in [0, |V|) for {len(ok)} parameter / switch assignments")
    decided = [r for r in ok if all(t is not None for k in ("faces", "edges", "cells") for t, _, _ in r.table(k))]
    in_range = [r for r in decided if all(0 <= i < r.nverts() for k in ("faces", "edges", "cells") for t, _, _ in r.table(k) for i in t)]
    # ------------------------------------------------------------------ table
    if "table" in R:
        first = {}
        n_tab = 0
        for r in in_range:
            faces = [t for t, _, _ in r.table("faces")]
            topo = spec.topo_of(r.params)
            if faces and topo is not None:
                n_tab += 1
                probs = X.surface_problems(faces, r.nverts(), topo)
                if not probs:
                    c = X.components(faces)
                    if c != 1:
                        probs.append((f"the faces form {c} connected components", ""))
                    loops = X.boundary_loops(faces)
                    if loops is None or loops != X.LOOPS[topo]:
                        probs.append((f"the border of the {topo} is not made of {X.LOOPS[topo]} loop(s)", f"{loops} border loop(s)"))
                for pn, detail in probs:
                    first.setdefault(pn, (r, detail, faces))
            elif not faces and topo is not None and spec.want_faces:
                first.setdefault("no face is generated", (r, "", faces))
            if spec.cells:
                for t, raw, node in r.table("cells"):
                    if sorted(t) != list(range(r.nverts())):
                        first.setdefault(f"cell of {name} is not a permutation of all appended vertices", (r, f"cell {t} with {r.nverts()} vertices", []))
            if spec.edge_rows:
                vs = r.mesh.c["vertices"].data
                for t, raw, node in r.table("edges"):
                    if t is None or len(t) != 2:
                        continue
                    ra = {row for tag, row in X.deps_of(vs[t[0]]) if isinstance(tag, str)}
                    rb = {row for tag, row in X.deps_of(vs[t[1]]) if isinstance(tag, str)}
                    if ra and rb and ra != rb:
                        first.setdefault(f"an edge of {name} links points computed from different rows of the input",
                                         (r, f"edge {t}: vertex {t[0]} comes from row(s) {sorted(ra)}, vertex {t[1]} from row(s) {sorted(rb)}", []))
            if spec.polyline is not None:
                want = {tuple(sorted(e)) for e in spec.polyline(r.params)}
                got = [tuple(sorted(t)) for t, _, _ in r.table("edges")]
                if set(got) != want or len(got) != len(set(got)):
                    missing, extra = sorted(want - set(got)), sorted(set(got) - want)
                    first.setdefault(f"the edges of {name} are not the documented links", (
                        r, f"missing {missing[:4]}, unexpected {extra[:4]}" + (", repeated edges" if len(got) != len(set(got)) else ""), []))
        for pn, (r, detail, faces) in sorted(first.items()):
            ctx.fail(R["table"], site, f"generated index table of {name}: {pn}" if not pn.startswith(("cell of", "the edges of", "an edge of")) else pn,
                     f"{_witness(r)}: {detail}" + (f"; faces {faces[:12]}" if faces else ""))
        if not first and (n_tab or spec.cells or spec.polyline is not None):
            ctx.ok(R["table"], site, f"{name}: index tables of {len(in_range)} assignments are consistently oriented manifolds of the named topology")
    # ------------------------------------------------------------------ counts
    if "counts" in R and spec.counts is not None:
        mism = {}
        chis = {}
        for r in in_range:
            doc = spec.counts(r.params)
            env = _ints(r, spec)
            V = r.nverts()
            faces = [t for t, _, _ in r.table("faces")]
            if doc.get("V") is not None:
                want = G.parse_poly(doc["V"]).eval(env)
                if want != V:
                    mism.setdefault("V", []).append((r, V, want, doc["V"]))
            if doc.get("F") is not None:
                got = {}
                for f in faces:
                    got[len(f)] = got.get(len(f), 0) + 1
                for k in sorted(set(got) | set(doc["F"])):
                    want = G.parse_poly(doc["F"][k]).eval(env) if k in doc["F"] else 0
                    if got.get(k, 0) != want:
                        mism.setdefault(("F", k), []).append((r, got.get(k, 0), want, doc["F"].get(k, "0")))
            if doc.get("E") is not None:
                want = G.parse_poly(doc["E"]).eval(env)
                got = len(r.mesh.c["edges"].data)
                if got != want:
                    mism.setdefault("E", []).append((r, got, want, doc["E"]))
            topo = spec.topo_of(r.params)
            if topo is not None and faces:
                chi, nE = X.euler(faces, V)
                key = tuple(sorted((k, v) for k, v in r.params.items() if k in spec.switches))
                chis.setdefault((key, topo), []).append((r, chi, nE, len(faces)))
        for what_, lst in sorted(mism.items(), key=lambda kv: str(kv[0])):
            r, got, want, doc = lst[0]
            sw = _sw_label(r, spec)
            group = [x for x in lst if _sw_label(x[0], spec) == sw]
            allg = [x for x in in_range if _sw_label(x, spec) == sw]
            label = "|V|" if what_ == "V" else "number of edges" if what_ == "E" else f"number of {what_[1]}-gons"
            ctx.fail(R["counts"], site, f"{label} differs from the documented `{G.parse_poly(doc) if doc != '0' else 0}`" + sw,
                     f"{_witness(r)}: {got} generated, {want} documented ({len(group)} of {len(allg)} assignments differ)")
        bad_chi = False
        for (key, topo), lst in sorted(chis.items(), key=lambda kv: str(kv[0])):
            want = X.CHI[topo]
            wrong = [x for x in lst if x[1] != want]
            if not wrong:
                continue
            bad_chi = True
            r, chi, nE, nF = wrong[0]
            sw = _sw_label(r, spec)
            names = sorted(spec.ints)
            fit = X.fit_poly([(_ints(x[0], spec), x[1]) for x in lst], names) if names else Poly.const(chi)
            shape = "closed shape" if topo in ("sphere", "torus") else topo
            if fit is not None:
                construct = f"Euler characteristic V - E + F of the {shape} is `{fit}`, not {want}" + sw
            else:
                construct = f"Euler characteristic V - E + F of the {shape} is not {want} for some admissible parameters" + sw
            ctx.fail(R["counts"], site, construct,
                     f"with E the number of distinct edges of the faces: {_witness(r)}: V={r.nverts()}, E={nE}, F={nF}, chi={chi}; "
                     f"on a {shape} made of these faces the difference is the number of allocated vertices that no face references "
                     f"(or of missing faces)")
        if not mism and not bad_chi:
            ctx.ok(R["counts"], site, f"{name}: counts and Euler characteristic agree with the documented ones for {len(in_range)} assignments")
    # ------------------------------------------------------------------ association / coverage
    if "assoc" in R and (spec.assoc or spec.samples):
        bad = None
        n_checked = 0
        for r in ok:
            vc = r.mesh.c["vertices"]
            for attr in vc.attrs.values():
                for key, val, size, node in attr.writes:
                    if not (isinstance(key, int) and not isinstance(key, bool) and 0 <= key < len(vc.data)):
                        continue
                    v = vc.data[key]
                    if isinstance(val, X.VecV) and isinstance(v, X.VecV) and val.numeric() and len(val.comps) <= len(v.comps) \
                            and all(X._num(c) for c in v.comps[:len(val.comps)]):
                        n_checked += 1
                        if tuple(val.comps) != tuple(v.comps[:len(val.comps)]) and bad is None:
                            bad = (r, f"the vertex attribute `{attr.name}` written for a key does not carry the coordinates of that vertex",
                                   f"key {key} receives {tuple(str(c) for c in val.comps)} but vertex {key} is at {tuple(str(c) for c in v.comps)}", node)
                        continue
                    # dependence form: the parameter samples stored in the attribute are those the vertex was evaluated at
                    da, dv = X.deps_of(val), X.deps_of(v)
                    if da and dv and {a for a, _ in da} <= {a for a, _ in dv}:
                        n_checked += 1
                        if not da <= dv and bad is None:
                            names_ = {id(arr): arr.label for arr in r.interp.arrays}
                            fmt = lambda d: sorted(f"{names_.get(a, '?')}[{i}]" for a, i in d)
                            bad = (r, f"the vertex attribute `{attr.name}` written for a key does not carry the parameters of that vertex",
                                   f"key {key} receives the samples {fmt(da)} but vertex {key} was evaluated at {fmt(dv)}", node)
            if spec.samples:
                for arr in r.interp.arrays:
                    if arr.reads and len(arr.reads) < len(arr.items) and bad is None:
                        missing = sorted(set(range(len(arr.items))) - arr.reads)
                        bad = (r, "a parameter linspace is not consumed up to its last sample",
                               f"samples {missing[:6]} of `{arr.label}` ({len(arr.items)} samples) are never used: the grid does not reach "
                               f"the last parameter value", getattr(arr, "node", None))
        if bad is not None:
            r, construct, detail, node = bad
            ctx.fail(R["assoc"], ctx.site(spec.mod, fn, node) if node is not None and _inside(fn, node) else site, construct,
                     f"{_witness(r)}: {detail}")
        elif n_checked or spec.samples:
            ctx.ok(R["assoc"], site, f"{name}: attribute keys address the vertex with the same coordinates ({n_checked} writes); linspaces consumed")
    return runs


def _inside(fn, node):
    ln = getattr(node, "lineno", None)
    return ln is not None and fn.lineno <= ln <= getattr(fn, "end_lineno", ln)
