"""The laws of property C12 stated over finite input tables and decided with the evaluator of hh_eval.

Every law names the function it is about (the site of the obligation), builds its inputs (orderings of the corners / the query
point, integer and float vectors, angle grids ...), evaluates the function's syntax tree and compares with a reference written
here.  `None` = the law holds on the whole table, a string = the input on which it fails.
During every evaluated call the harness also watches the two global side effects the property forbids: an array handed to the
function is changed, numpy's error configuration is different after the call.
"""
from __future__ import annotations
import itertools, math, cmath, random
from .hh_np import Arr, Unknown, Raised
from . import hh_eval as E

TOL = 1e-9


def close(a, b, tol=TOL):
    if isinstance(a, complex) or isinstance(b, complex):
        return abs(complex(a) - complex(b)) <= tol * (1 + abs(a) + abs(b))
    if a != a or b != b:
        return a != a and b != b
    if a in (math.inf, -math.inf) or b in (math.inf, -math.inf):
        return a == b
    return abs(a - b) <= tol * (1 + abs(a) + abs(b))


def vclose(a, b, tol=TOL):
    return len(a) == len(b) and all(close(x, y, tol) for x, y in zip(a, b))


def fmt(v):
    if isinstance(v, float):
        return f"{v:.6g}"
    if isinstance(v, (list, tuple)):
        return "(" + ", ".join(fmt(x) for x in v) + ")"
    return str(v)


class SideEffect(Exception):
    pass


class T:
    """evaluation harness of one law"""

    def __init__(self, repo, strict_mods):
        self.it = E.Interp(repo)
        self.it.strict_mods = set(strict_mods)
        self.repo = repo
        self.tracked = []          # (label, Arr) arrays handed to the evaluated code
        self.effects = []          # (kind, text)
        self._vec = None

    # ---- lookup
    def g(self, modname, name):
        return self.it.global_name(self.it.module(modname), name)

    @property
    def Vec(self):
        if self._vec is None:
            self._vec = self.g("geometry.vector", "Vec")
        return self._vec

    def attr(self, o, name):
        return self.it.getattr(o, name)

    def has(self, cls, name):
        return name in self.it.class_members(cls)

    # ---- inputs
    def vec(self, values, label="argument"):
        a = self.it.call(self.Vec, [list(values)], {})
        if not isinstance(a, Arr):
            raise Unknown("Vec(...) does not build an array")
        self.tracked.append((label, a))
        return a

    def arr(self, values, label="argument"):
        a = E.asarr(values)
        self.tracked.append((label, a))
        return a

    def track(self, a, label):
        self.tracked.append((label, a))
        return a

    # ---- calls
    def call(self, f, *args, what="", may_raise=False, **kw):
        if len(self.tracked) > 16:
            del self.tracked[:-16]          # the inputs of the current case
        before = [(lab, a, a.vals()) for lab, a in self.tracked]
        err0 = dict(self.it.err)
        failed = None
        try:
            r = self.it.call(f, list(args), dict(kw))
        except Raised as ex:
            if not may_raise:
                raise
            failed, r = ex, None
        for lab, a, vals in before:
            now = a.vals()
            if len(now) != len(vals) or any(not _same_val(x, y) for x, y in zip(now, vals)):
                self.effects.append(("mutation", what, lab, f"{fmt(vals)} became {fmt(now)}"))
        if self.it.err != err0:
            self.effects.append(("errstate", what, "raising" if failed else "returning", f"{err0} became {dict(self.it.err)}"))
            self.it.err.clear()
            self.it.err.update(err0)
        if may_raise:
            return r, failed
        return r

    def m(self, o, name, *args, what="", **kw):
        return self.call(self.attr(o, name), *args, what=what or name, **kw)

    # ---- results
    def nums(self, v):
        if isinstance(v, Arr):
            return v.vals()
        if isinstance(v, (list, tuple)):
            out = []
            for x in v:
                out.extend(self.nums(x))
            return out
        if E.is_number(v):
            return [v]
        raise Unknown(f"a number / vector was expected, got {type(v).__name__}")

    def num(self, v):
        n = self.nums(v)
        if len(n) != 1:
            raise Unknown("a single number was expected")
        return n[0]

    def truth(self, v):
        return self.it.truth(v)


def _same_val(x, y):
    return x == y or (x != x and y != y)


# ================================================================================================ boxes
AABB_MOD = "geometry.aabb"


def _box(t, lo, hi, label="box"):
    lo_a, hi_a = t.vec(lo, f"the minimum corner given to the constructor of the {label}"), t.vec(hi, f"the maximum corner given to the constructor of the {label}")
    return t.call(t.g(AABB_MOD, "AABB"), lo_a, hi_a, what="AABB()")


def _corners(t, b):
    return t.nums(t.attr(b, "mini")), t.nums(t.attr(b, "maxi"))


def axis_cases(n_sym, values, ok=lambda c: True):
    return [c for c in itertools.product(values, repeat=n_sym) if ok(c)]


def law_contains_point(t):
    cases = axis_cases(3, (0., 1., 2.))
    for dim in (1, 2, 3):
        combos = list(itertools.product(cases, repeat=dim))
        if dim > 1:
            combos = random.Random(3).sample(combos, 120 if dim == 2 else 40)
        for combo in combos:
            lo, pt, hi = ([c[k] for c in combo] for k in range(3))
            b = _box(t, lo, hi)
            got = t.truth(t.m(b, "contains_point", t.vec(pt, "the query point"), what="AABB.contains_point"))
            want = all(l <= p < h for l, p, h in zip(lo, pt, hi))
            if got != want:
                return f"box {fmt(lo)} -> {fmt(hi)}, point {fmt(pt)}: contains_point answers {got}"
    return None


def law_project(t):
    cases = axis_cases(3, (0., 1., 2.), lambda c: c[0] <= c[2])
    for dim in (1, 2):
        combos = list(itertools.product(cases, repeat=dim))
        for combo in (combos if dim == 1 else random.Random(4).sample(combos, 100)):
            lo, pt, hi = ([c[k] for c in combo] for k in range(3))
            b = _box(t, lo, hi)
            got = t.nums(t.m(b, "project", t.vec(pt, "the query point"), what="AABB.project"))
            want = [min(max(p, l), h) for l, p, h in zip(lo, pt, hi)]
            if not vclose(got, want):
                return f"box {fmt(lo)} -> {fmt(hi)}, point {fmt(pt)}: project gives {fmt(got)}, the closest point of the closed box is {fmt(want)}"
    # integer-typed query points against non-integer corners: the result must not inherit the integer dtype of the point
    for lo, hi in (([0.5, 0.5], [1.5, 1.5]), ([-0.25, 0.75], [2.5, 1.25]), ([0.5], [0.75])):
        dim = len(lo)
        for pt in ([3, 0], [0, 3], [1, 1], [-2, -2], [2, 1])[:5 if dim == 2 else 3]:
            pt = pt[:dim]
            want = [min(max(p, l), h) for l, p, h in zip(lo, pt, hi)]
            for form in ("integer Vec", "tuple of ints", "integer array"):
                b = _box(t, lo, hi)
                arg = t.vec(pt, "the query point") if form == "integer Vec" else tuple(pt) if form == "tuple of ints" else t.arr(pt, "the query point")
                got = t.nums(t.m(b, "project", arg, what="AABB.project"))
                if not vclose(got, want):
                    return (f"box {fmt(lo)} -> {fmt(hi)}, point {fmt(pt)} given as {form}: project gives {fmt(got)}, the closest point of the "
                            f"closed box is {fmt(want)} (the integer type of the point must not truncate the corners)")
    b = _box(t, [0.5, -1.25, 2.], [1.5, 0.75, 2.])
    for pt in ([3., 0., 2.], [1., -2.5, 7.25], [0.75, 0., 2.]):
        got = t.nums(t.m(b, "project", list(pt), what="AABB.project"))          # any iterable is accepted (Vec(pt))
        want = [min(max(p, l), h) for l, p, h in zip([0.5, -1.25, 2.], pt, [1.5, 0.75, 2.])]
        if not vclose(got, want):
            return f"box (0.5, -1.25, 2) -> (1.5, 0.75, 2), point {fmt(pt)}: project gives {fmt(got)}, expected {fmt(want)}"
    return None


def _norm(v, which):
    if which == "l2":
        return math.sqrt(sum(x * x for x in v))
    if which == "l1":
        return float(sum(abs(x) for x in v))
    return float(max(abs(x) for x in v))


def law_iterables(t):
    """the query point / the point set may be any iterable (they go through Vec(...) / np.array(...)), of integers as well"""
    for pt, inside, dist in (([1, 1], True, 0.0), ([3, 0], False, math.hypot(1.5, 0.5)), ([0, 1], False, 0.5)):
        for form in ("integer Vec", "tuple of ints"):
            b = _box(t, [0.5, 0.5], [1.5, 1.5])
            arg = (lambda: t.vec(pt, "the query point")) if form == "integer Vec" else (lambda: tuple(pt))
            if t.truth(t.m(b, "contains_point", arg(), what="AABB.contains_point")) != inside:
                return f"contains_point of the integer point {fmt(pt)} ({form}) in the box (0.5, 0.5) -> (1.5, 1.5) is not {inside}"
            d = t.num(t.m(b, "distance", arg(), what="AABB.distance"))
            if not close(d, dist):
                return f"distance of the integer point {fmt(pt)} ({form}) to the box (0.5, 0.5) -> (1.5, 1.5) is {fmt(d)}, expected {fmt(dist)}"
    bb = t.call(t.attr(t.g(AABB_MOD, "AABB"), "of_points"), t.arr([[0, 1], [2, -1], [1, 3]], "the array of points"), 0.25, what="AABB.of_points")
    mini, maxi = _corners(t, bb)
    if not (vclose(mini, [-0.25, -1.25]) and vclose(maxi, [2.25, 3.25])):
        return f"of_points of integer points with padding 0.25 is {fmt(mini)} -> {fmt(maxi)}, expected (-0.25, -1.25) -> (2.25, 3.25)"
    c = t.nums(t.attr(t.call(t.g(AABB_MOD, "AABB"), [0, 0], [1, 3], what="AABB()"), "center"))
    if not vclose(c, [0.5, 1.5]):
        return f"the center of the integer box (0, 0) -> (1, 3) is {fmt(c)}"
    b = _box(t, [0., 0.], [2., 1.])
    if not t.truth(t.m(b, "contains_point", [1., 0.5], what="AABB.contains_point")) or t.truth(t.m(b, "contains_point", (2., 0.5), what="AABB.contains_point")):
        return "contains_point of a point given as a list / tuple: (1, 0.5) must be inside and (2, 0.5) outside the box (0, 0) -> (2, 1)"
    d = t.num(t.m(b, "distance", [3., 1.], what="AABB.distance"))
    if not close(d, 1.0):
        return f"distance of the point [3, 1] given as a list to the box (0, 0) -> (2, 1) is {fmt(d)}"
    bb = t.call(t.attr(t.g(AABB_MOD, "AABB"), "of_points"), [[0., 1.], [2., -1.]], what="AABB.of_points")
    mini, maxi = _corners(t, bb)
    if not (vclose(mini, [0., -1.]) and vclose(maxi, [2., 1.])):
        return f"of_points of a list of lists is {fmt(mini)} -> {fmt(maxi)}"
    return None


def law_distance(t):
    cases = axis_cases(3, (0., 1., 3.), lambda c: c[0] <= c[2])
    for dim in (1, 2):
        combos = list(itertools.product(cases, repeat=dim))
        for combo in (combos if dim == 1 else random.Random(6).sample(combos, 60)):
            lo, pt, hi = ([c[k] for c in combo] for k in range(3))
            b = _box(t, lo, hi)
            excess = [max(l - p, p - h, 0.) for l, p, h in zip(lo, pt, hi)]
            for which in (None, "l2", "l1", "linf"):
                kw = {} if which is None else {"which": which}
                got = t.num(t.m(b, "distance", t.vec(pt, "the query point"), what="AABB.distance", **kw))
                want = _norm(excess, which or "l2")
                if not close(got, want):
                    return (f"box {fmt(lo)} -> {fmt(hi)}, point {fmt(pt)}, norm {which or 'default (l2)'}: distance gives {fmt(got)}, "
                            f"the distance to the closest point of the box is {fmt(want)}")
    return None


def _pair_cases():
    return axis_cases(4, (0., 1., 2., 3.), lambda c: c[0] <= c[1] and c[2] <= c[3])      # (lo1, hi1, lo2, hi2) on one axis


def _pairs(dim_max=2, n2=50):
    one = _pair_cases()
    yield from ((c,) for c in one)
    if dim_max >= 2:
        rnd = random.Random(7)
        # every pair of (intersecting / touching / disjoint) classes is present in the sample
        for _ in range(n2):
            yield (rnd.choice(one), rnd.choice(one))
        touch = [c for c in one if max(c[0], c[2]) == min(c[1], c[3])]
        over = [c for c in one if max(c[0], c[2]) < min(c[1], c[3])]
        apart = [c for c in one if max(c[0], c[2]) > min(c[1], c[3])]
        for a, b in itertools.product((touch[0], over[0], apart[0], touch[-1]), repeat=2):
            yield (a, b)


def _split(combo):
    return ([c[k] for c in combo] for k in range(4))


def law_binary(op, via_operator=None):
    def law(t):
        AABB = t.g(AABB_MOD, "AABB")
        if via_operator and not t.has(AABB, via_operator):
            return None
        for combo in (_pairs() if not via_operator else list(_pairs(n2=0))[::3]):
            lo1, hi1, lo2, hi2 = _split(combo)
            b1, b2 = _box(t, lo1, hi1, "first box"), _box(t, lo2, hi2, "second box")
            if via_operator:
                r = t.call(E.Builtin("operator", lambda it, a, k: it._dunder(OPS[via_operator], a[0], a[1])), b1, b2, what=f"AABB.{via_operator}")
            else:
                r = t.call(t.attr(AABB, op), b1, b2, what=f"AABB.{op}")
            if op == "do_intersect":
                want = all(max(a, c) <= min(b, d) for a, b, c, d in zip(lo1, hi1, lo2, hi2))
                if t.truth(r) != want:
                    return (f"boxes {fmt(lo1)} -> {fmt(hi1)} and {fmt(lo2)} -> {fmt(hi2)}: do_intersect answers {t.truth(r)}, the overlap "
                            f"{'has' if want else 'does not have'} a non-negative extent in every dimension")
                continue
            mini, maxi = _corners(t, r)
            if op == "intersection":
                wmin, wmax = [max(a, c) for a, c in zip(lo1, lo2)], [min(b, d) for b, d in zip(hi1, hi2)]
            else:
                wmin, wmax = [min(a, c) for a, c in zip(lo1, lo2)], [max(b, d) for b, d in zip(hi1, hi2)]
            if not (vclose(mini, wmin) and vclose(maxi, wmax)):
                return (f"boxes {fmt(lo1)} -> {fmt(hi1)} and {fmt(lo2)} -> {fmt(hi2)}: {op} is {fmt(mini)} -> {fmt(maxi)}, "
                        f"expected {fmt(wmin)} -> {fmt(wmax)}")
        return None
    return law


import ast as _ast
OPS = {"__and__": _ast.BitAnd(), "__or__": _ast.BitOr()}


def law_result_is_new_box(op):
    """padding the result of a binary operation (pad is documented to modify the box it is called on) leaves the operands as they were"""
    def law(t):
        AABB = t.g(AABB_MOD, "AABB")
        configs = [([0., 0.], [4., 4.], [1., 1.], [2., 3.]), ([1., 1.], [2., 3.], [0., 0.], [4., 4.]), ([0., 1.], [2., 2.], [0., 1.], [2., 2.]),
                   ([0., 0.], [1., 1.], [3., 3.], [4., 5.]), ([0., 0.], [2., 2.], [1., 1.], [3., 3.])]
        for lo1, hi1, lo2, hi2 in configs:
            b1, b2 = _box(t, lo1, hi1, "first box"), _box(t, lo2, hi2, "second box")
            r = t.call(t.attr(AABB, op), b1, b2, what=f"AABB.{op}")
            if r is b1 or r is b2:
                which = "first" if r is b1 else "second"
            else:
                which = None
            t.m(r, "pad", 0.5, what="AABB.pad")
            for b, lo, hi, name in ((b1, lo1, hi1, "first"), (b2, lo2, hi2, "second")):
                mini, maxi = _corners(t, b)
                if not (vclose(mini, lo) and vclose(maxi, hi)):
                    return (f"{op} of {fmt(lo1)} -> {fmt(hi1)} and {fmt(lo2)} -> {fmt(hi2)}"
                            + (f" returns its {which} operand itself" if which else " shares its corners with an operand")
                            + f": after result.pad(0.5) the {name} operand is {fmt(mini)} -> {fmt(maxi)}")
        return None
    return law


def law_pad(t):
    for lo, hi in (([0., 1.], [2., 1.5]), ([-1., 0., 2.], [1., 0., 5.])):
        for pad in (0.5, 2.0, -1.0, 0.0, "vec", "negvec"):
            b = _box(t, lo, hi)
            twin = t.call(t.g(AABB_MOD, "AABB"), t.tracked[-2][1], t.tracked[-1][1], what="AABB()")      # a second box over the same corner arrays
            if pad == "vec":
                amount = [0.25 * (i + 1) for i in range(len(lo))]
                arg = t.vec(amount, "the padding vector")
            elif pad == "negvec":
                amount = [(-1.) ** i * 0.5 for i in range(len(lo))]
                arg = t.vec(amount, "the padding vector")
            else:
                amount, arg = [pad] * len(lo), pad
            t.m(b, "pad", arg, what="AABB.pad")
            mini, maxi = _corners(t, b)
            wmin, wmax = [l - max(a, 0.) for l, a in zip(lo, amount)], [h + max(a, 0.) for h, a in zip(hi, amount)]
            if not (vclose(mini, wmin) and vclose(maxi, wmax)):
                return f"box {fmt(lo)} -> {fmt(hi)} padded by {fmt(amount)} is {fmt(mini)} -> {fmt(maxi)}, expected {fmt(wmin)} -> {fmt(wmax)}"
            tmin, tmax = _corners(t, twin)
            if not (vclose(tmin, lo) and vclose(tmax, hi)):
                return (f"a second box built from the same corner arrays {fmt(lo)} -> {fmt(hi)} is {fmt(tmin)} -> {fmt(tmax)} after the "
                        f"first one was padded by {fmt(amount)}")
    return None


def law_of_points(t):
    AABB = t.g(AABB_MOD, "AABB")
    rnd = random.Random(5)
    for dim, n in ((2, 1), (2, 5), (3, 4), (1, 3)):
        pts = [[float(rnd.randint(-4, 4)) / 2 for _ in range(dim)] for _ in range(n)]
        for padding in (None, 0.0, 0.75):
            args = [t.arr(pts, "the array of points")] + ([] if padding is None else [padding])
            b = t.call(t.attr(AABB, "of_points"), *args, what="AABB.of_points")
            mini, maxi = _corners(t, b)
            p = padding or 0.0
            wmin = [min(q[k] for q in pts) - p for k in range(dim)]
            wmax = [max(q[k] for q in pts) + p for k in range(dim)]
            if not (vclose(mini, wmin) and vclose(maxi, wmax)):
                return f"points {fmt(pts)}, padding {p}: box {fmt(mini)} -> {fmt(maxi)}, the tight box is {fmt(wmin)} -> {fmt(wmax)}"
    return None


def law_of_mesh(t):
    AABB = t.g(AABB_MOD, "AABB")
    pts = [[0., 1., -2.], [3., -1., 0.5], [1., 1., 1.], [-0.5, 0., 4.]]
    for padding in (None, 0.5):
        data = t.arr(pts, "the vertex coordinates of the mesh")
        mesh = E.Rec(vertices=E.Rec(seq=data, _data=data), id_vertices=range(len(pts)))
        b = t.call(t.attr(AABB, "of_mesh"), mesh, *([] if padding is None else [padding]), what="AABB.of_mesh")
        mini, maxi = _corners(t, b)
        p = padding or 0.0
        wmin, wmax = [min(q[k] for q in pts) - p for k in range(3)], [max(q[k] for q in pts) + p for k in range(3)]
        if not (vclose(mini, wmin) and vclose(maxi, wmax)):
            return f"vertices {fmt(pts)}, padding {p}: box {fmt(mini)} -> {fmt(maxi)}, the tight box is {fmt(wmin)} -> {fmt(wmax)}"
    return None


def law_accessors(t):
    AABB = t.g(AABB_MOD, "AABB")
    for lo, hi in (([0., -1.], [2., 3.5]), ([1., 2., 3.], [1., 4., 9.]), ([0.], [5.])):
        b = _box(t, lo, hi)
        mini, maxi = _corners(t, b)
        if not (vclose(mini, lo) and vclose(maxi, hi)):
            return f"AABB({fmt(lo)}, {fmt(hi)}) has corners {fmt(mini)} -> {fmt(maxi)}"
        if t.attr(b, "dim") != len(lo):
            return f"AABB({fmt(lo)}, {fmt(hi)}).dim is {t.attr(b, 'dim')}"
        span, center = t.nums(t.attr(b, "span")), t.nums(t.attr(b, "center"))
        if not vclose(span, [h - l for l, h in zip(lo, hi)]):
            return f"AABB({fmt(lo)}, {fmt(hi)}).span is {fmt(span)}"
        if not vclose(center, [(h + l) / 2 for l, h in zip(lo, hi)]):
            return f"AABB({fmt(lo)}, {fmt(hi)}).center is {fmt(center)}"
    for dim in (1, 3):
        for centered in (False, True):
            b = t.call(t.attr(AABB, "unit_cube"), dim, centered, what="AABB.unit_cube")
            mini, maxi = _corners(t, b)
            w = (-0.5, 0.5) if centered else (0., 1.)
            if not (vclose(mini, [w[0]] * dim) and vclose(maxi, [w[1]] * dim)):
                return f"unit_cube({dim}, centered={centered}) is {fmt(mini)} -> {fmt(maxi)}"
    b = t.call(t.attr(AABB, "infinite"), 2, what="AABB.infinite")
    mini, maxi = _corners(t, b)
    if mini != [-math.inf] * 2 or maxi != [math.inf] * 2:
        return f"infinite(2) is {fmt(mini)} -> {fmt(maxi)}"
    return None


# ================================================================================================ scalars / angles
GEO = "geometry.geometry"
MATHS = "utils.maths"


def law_sign(name, spec):
    def law(t):
        f = t.g(GEO, name)
        for x in (-2.5, -1, 0, 0.0, 1, 3.25, 1e-30, -1e-30):
            got = t.num(t.call(f, x, what=name))
            if got != spec(x):
                return f"{name}({x}) = {got}, expected {spec(x)}"
        return None
    return law


def _angle_grid():
    out = []
    for k in range(-17, 18):
        for off in (0.0, 0.1, -0.1):
            out.append(k * math.pi / 4 + off)
    out += [1e-9, -1e-9, 100.0, -100.0, 2 * math.pi, -2 * math.pi, math.pi, -math.pi]
    return out


def _congruent(x, y):
    d = (x - y) / (2 * math.pi)
    return abs(d - round(d)) < 1e-9


def law_principal_angle(t):
    f = t.g(MATHS, "principal_angle")
    for a in _angle_grid():
        got = t.num(t.call(f, a, what="principal_angle"))
        if not _congruent(got, a):
            return f"principal_angle({a:.6f}) = {got:.6f} is not congruent to its argument modulo 2*pi"
        if not (-math.pi - 1e-12 <= got <= math.pi + 1e-12):
            return f"principal_angle({a:.6f}) = {got:.6f} lies outside [-pi, pi]"
    return None


def law_angle_diff(t):
    f = t.g(MATHS, "angle_diff")
    grid = _angle_grid()[::7]
    for a in grid:
        for b in grid:
            got = t.num(t.call(f, a, b, what="angle_diff"))
            if not _congruent(got, a - b):
                return f"angle_diff({a:.6f}, {b:.6f}) = {got:.6f} is not congruent to a - b modulo 2*pi"
            if not (-math.pi - 1e-12 <= got <= math.pi + 1e-12):
                return f"angle_diff({a:.6f}, {b:.6f}) = {got:.6f} lies outside [-pi, pi]"
    return None


def law_roots(t):
    f = t.g(MATHS, "roots")
    for c in (3 + 4j, 1j, -2.0 + 0j, 0.6 - 0.8j, 1 + 0j, -0.5 - 2j):
        for n in (1, 2, 3, 4, 6):
            for normalize in (None, True, False):
                kw = {} if normalize is None else {"normalize": normalize}
                r = t.call(f, c, n, what="roots", **kw)
                rs = t.it.iterate(r)
                if len(rs) != n:
                    return f"roots({c}, {n}) returns {len(rs)} values"
                want = c if normalize is False else c / abs(c)
                for z in rs:
                    if not close(complex(z) ** n, want, 1e-8):
                        return (f"roots({c}, {n}{'' if normalize is None else ', normalize=' + str(normalize)}): {complex(z):.6g} to the power "
                                f"{n} is {complex(z) ** n:.6g}, not {'the input' if normalize is False else 'the unit input'} {want:.6g}")
                for i in range(n):
                    for j in range(i):
                        if abs(complex(rs[i]) - complex(rs[j])) < 1e-9:
                            return f"roots({c}, {n}) returns the same root twice"
    return None


# ================================================================================================ vectors
def _cross(a, b):
    return [a[1] * b[2] - a[2] * b[1], a[2] * b[0] - a[0] * b[2], a[0] * b[1] - a[1] * b[0]]


def _dot(a, b):
    return sum(x * y for x, y in zip(a, b))


def _sub(a, b):
    return [x - y for x, y in zip(a, b)]


def _len(a):
    return math.sqrt(_dot(a, a))


def _int_vectors(n, dim=3, seed=1):
    rnd = random.Random(seed)
    return [[rnd.randint(-4, 4) for _ in range(dim)] for _ in range(n)]


def _float_vectors(n, dim=3, seed=2):
    rnd = random.Random(seed)
    return [[round(rnd.uniform(-3, 3), 2) for _ in range(dim)] for _ in range(n)]


def law_cross(t):
    f = t.g(GEO, "cross")
    vs = _int_vectors(8) + _float_vectors(4)
    for a, b in zip(vs, vs[1:] + vs[:1]):
        got = t.nums(t.call(f, t.vec(a), t.vec(b), what="cross"))
        want = _cross(a, b)
        if not vclose(got, want, 1e-12):
            return f"cross({fmt(a)}, {fmt(b)}) = {fmt(got)}, exact arithmetic gives {fmt(want)}"
    return None


def law_det2(t):
    f = t.g(GEO, "det_2x2")
    vs = _int_vectors(8, 2) + _float_vectors(3, 2)
    for a, b in zip(vs, vs[1:] + vs[:1]):
        want = a[0] * b[1] - a[1] * b[0]
        got = t.num(t.call(f, t.vec(a), t.vec(b), what="det_2x2"))
        if not close(got, want, 1e-12):
            return f"det_2x2({fmt(a)}, {fmt(b)}) = {fmt(got)}, exact arithmetic gives {fmt(want)}"
        got = t.num(t.call(f, complex(*a), complex(*b), what="det_2x2"))
        if not close(got, want, 1e-12):
            return f"det_2x2({complex(*a)}, {complex(*b)}) = {fmt(got)}, exact arithmetic gives {fmt(want)}"
    return None


def _det3(a, b, c):
    return _dot(a, _cross(b, c))


def law_det3(t):
    f = t.g(GEO, "det_3x3")
    vs = _int_vectors(9, seed=4) + _float_vectors(3, seed=5)
    for a, b, c in zip(vs, vs[1:] + vs[:1], vs[2:] + vs[:2]):
        want = _det3(a, b, c)
        got = t.num(t.call(f, t.vec(a), t.vec(b), t.vec(c), what="det_3x3"))
        if not close(got, want, 1e-12):
            return f"det_3x3 of the columns {fmt(a)}, {fmt(b)}, {fmt(c)} = {fmt(got)}, exact arithmetic gives {fmt(want)}"
        got = t.num(t.call(f, t.arr([a, b, c], "the matrix"), what="det_3x3"))
        if not close(got, want, 1e-12):
            return f"det_3x3 of the matrix {fmt([a, b, c])} = {fmt(got)}, exact arithmetic gives {fmt(want)}"
    return None


def law_norms(t):
    f, d, dist = t.g(GEO, "norm"), t.g(GEO, "dot"), t.g(GEO, "distance")
    vs = _int_vectors(3, 3, 8) + _float_vectors(3, 3, 9) + _float_vectors(2, 2, 10) + [[0., 0., 0.]]
    for a, b in zip(vs, vs[1:] + vs[:1]):
        for which in (None, "l2", "l1", "linf"):
            kw = {} if which is None else {"which": which}
            got = t.num(t.call(f, t.vec(a), what="norm", **kw))
            if not close(got, _norm(a, which or "l2")):
                return f"norm({fmt(a)}, {which or 'default'}) = {fmt(got)}, expected {fmt(_norm(a, which or 'l2'))}"
            got = t.num(t.m(t.vec(a), "norm", what="Vec.norm", **kw))
            if not close(got, _norm(a, which or "l2")):
                return f"Vec{fmt(a)}.norm({which or 'default'}) = {fmt(got)}, expected {fmt(_norm(a, which or 'l2'))}"
            if len(a) == len(b):
                got = t.num(t.call(dist, t.vec(a), t.vec(b), what="distance", **kw))
                if not close(got, _norm(_sub(b, a), which or "l2")):
                    return f"distance({fmt(a)}, {fmt(b)}, {which or 'default'}) = {fmt(got)}, expected {fmt(_norm(_sub(b, a), which or 'l2'))}"
        if len(a) == len(b):
            got = t.num(t.call(d, t.vec(a), t.vec(b), what="dot"))
            if not close(got, _dot(a, b)):
                return f"dot({fmt(a)}, {fmt(b)}) = {fmt(got)}, expected {fmt(_dot(a, b))}"
            got = t.num(t.m(t.vec(a), "dot", t.vec(b), what="Vec.dot"))
            if not close(got, _dot(a, b)):
                return f"Vec{fmt(a)}.dot({fmt(b)}) = {fmt(got)}, expected {fmt(_dot(a, b))}"
    m = [[1., -2.], [3., 0.5]]
    got = t.num(t.call(f, t.arr(m, "the matrix"), what="norm"))
    if not close(got, _norm([1., -2., 3., 0.5], "l2")):
        return f"norm of the 2x2 array {fmt(m)} (flattened) = {fmt(got)}"
    return None


def law_vec(t):
    Vec = t.Vec
    v = t.call(Vec, 1., 2., 3., what="Vec()")
    if t.nums(v) != [1., 2., 3.] or [t.num(t.attr(v, c)) for c in "xyz"] != [1., 2., 3.]:
        return f"Vec(1., 2., 3.) has components {fmt(t.nums(v))} / x, y, z = {[t.num(t.attr(v, c)) for c in 'xyz']}"
    if t.nums(t.attr(v, "xy")) != [1., 2.]:
        return "Vec(1., 2., 3.).xy is not (1, 2)"
    t.it.setattr(v, "x", 5.)
    t.it.setattr(v, "z", -1.)
    if t.nums(v) != [5., 2., -1.]:
        return f"after v.x = 5; v.z = -1 the vector (1, 2, 3) is {fmt(t.nums(v))}"
    for a in _float_vectors(3, 3, 11) + _int_vectors(2, 3, 12) + [[3., 4.]]:
        if not any(a):
            continue
        for which in (None, "l2", "l1", "linf"):
            kw = {} if which is None else {"which": which}
            n = t.nums(t.call(t.attr(Vec, "normalized"), t.vec(a), what="Vec.normalized", **kw))
            w = [x / _norm(a, which or "l2") for x in a]
            if not vclose(n, w):
                return f"Vec.normalized({fmt(a)}, {which or 'default'}) = {fmt(n)}, expected {fmt(w)}"
        fa = [float(x) for x in a]
        recv = t.call(Vec, *fa, what="Vec()")
        t.m(recv, "normalize", what="Vec.normalize")
        if not vclose(t.nums(recv), [x / _len(a) for x in a]):
            return f"Vec{fmt(fa)}.normalize() leaves {fmt(t.nums(recv))}"
    for name, w in (("X", [1., 0., 0.]), ("Y", [0., 1., 0.]), ("Z", [0., 0., 1.])):
        if t.nums(t.call(t.attr(Vec, name), what="Vec." + name)) != w:
            return f"Vec.{name}() is not {fmt(w)}"
    if t.nums(t.call(t.attr(Vec, "zeros"), 4, what="Vec.zeros")) != [0.] * 4:
        return "Vec.zeros(4) is not the null vector of size 4"
    if t.nums(t.call(t.attr(Vec, "from_complex"), 2 - 3j, what="Vec.from_complex")) != [2., -3.]:
        return "Vec.from_complex(2-3j) is not (2, -3)"
    a, b = [1., 2., 3.], [-1., 0.5]
    o = t.m(t.vec(a), "outer", t.vec(b), what="Vec.outer")
    if not isinstance(o, Arr) or o.shape != (3, 2) or not vclose(o.vals(), [x * y for x in a for y in b]):
        return "Vec(1, 2, 3).outer((-1, 0.5)) is not the 3x2 matrix of the products a[i]*b[j]"
    return None


def law_quadratic(t):
    f = t.g(MATHS, "solve_quadratic")
    for A, B, C in ((1., -3., 2.), (2., 1., -6.), (1., 2., 5.), (0., 2., -3.), (0., 0., 1.), (1., -2., 1.), (-1., 0., 4.), (3., 0., 0.75), (0.5, 4., 1.)):
        r = [t.num(x) for x in t.it.iterate(t.call(f, A, B, C, what="solve_quadratic"))]
        if A == 0:
            want = [] if B == 0 else [-C / B]
        else:
            d = B * B - 4 * A * C
            want = [] if d < 0 else [-B / (2 * A)] if d == 0 else sorted([(-B - math.sqrt(d)) / (2 * A), (-B + math.sqrt(d)) / (2 * A)])
        if len(r) != len(want) or not vclose(sorted(r), sorted(want), 1e-8):
            return f"solve_quadratic({A}, {B}, {C}) = {fmt(r)}, the real roots are {fmt(want)}"
    return None


def law_errstate(t):
    """numpy's error configuration after a call is the one found before it, whether the call returns or raises"""
    Vec = t.Vec
    geo = lambda n: t.g(GEO, n)
    rot = t.g("geometry.rotations", "rotate_around_axis")
    configs = [{"divide": "warn", "over": "warn", "under": "ignore", "invalid": "warn"},
               {"divide": "ignore", "over": "raise", "under": "ignore", "invalid": "ignore"}]
    for cfg in configs:
        t.it.err.clear()
        t.it.err.update(cfg)
        jobs = [("Vec.normalized", t.attr(Vec, "normalized"), [[1., 2., 2.]]), ("Vec.normalized", t.attr(Vec, "normalized"), [[0., 0., 0.]]),
                ("cotan", geo("cotan"), [[1., 0., 0.], [1., 0., 0.], [0., 1., 0.]]), ("cotan", geo("cotan"), [[1., 0., 0.], [0., 0., 0.], [0., 1., 1.]]),
                ("face_basis", geo("face_basis"), [[0., 0., 0.], [1., 0., 0.], [2., 0., 0.]]),
                ("rotate_around_axis", rot, [[1., 0., 0.], [0., 0., 0.], 0.5])]
        for name, f, args in jobs:
            n0 = len(t.effects)
            t.call(f, *[t.vec(a) if isinstance(a, list) else a for a in args], what=name, may_raise=True)
            for eff in t.effects[n0:]:
                if eff[0] == "errstate":
                    return f"{name}{fmt(args)} ({eff[2]}): numpy's error configuration {eff[3]}"
    return None


# ================================================================================================ angles / triangles
def _angle(a, b):
    return math.atan2(_len(_cross(a, b)), _dot(a, b))


def _triples(n=8, seed=21, integer=True):
    vs = (_int_vectors if integer else _float_vectors)(n + 2, 3, seed)
    out = []
    for a, b, c in zip(vs, vs[1:], vs[2:]):
        if _len(_cross(_sub(a, b), _sub(c, b))) > 1e-6:
            out.append((a, b, c))
    return out


def law_angle_3pts(t):
    f = t.g(GEO, "angle_3pts")
    cases = _triples() + _triples(4, 22, False) + [([1., 0., 0.], [0., 0., 0.], [0., 2., 0.]), ([1., 0., 0.], [0., 0., 0.], [-3., 0., 0.]),
                                                  ([1., 1., 0.], [0., 0., 0.], [2., 2., 0.])]
    for a, b, c in cases:
        got = t.num(t.call(f, t.vec(a), t.vec(b), t.vec(c), what="angle_3pts"))
        want = _angle(_sub(a, b), _sub(c, b))
        if not close(got, want):
            return f"angle_3pts({fmt(a)}, {fmt(b)}, {fmt(c)}) = {fmt(got)}, the angle at the middle point is {fmt(want)}"
        if not (-1e-12 <= got <= math.pi + 1e-12):
            return f"angle_3pts({fmt(a)}, {fmt(b)}, {fmt(c)}) = {fmt(got)} lies outside [0, pi]"
        sym = t.num(t.call(f, t.vec(c), t.vec(b), t.vec(a), what="angle_3pts"))
        if not close(got, sym):
            return f"angle_3pts is not symmetric: ({fmt(a)}, {fmt(b)}, {fmt(c)}) gives {fmt(got)}, exchanged end points give {fmt(sym)}"
    got = t.num(t.call(f, [1., 0., 0.], [0., 0., 0.], [0., 1., 0.], what="angle_3pts"))
    if not close(got, math.pi / 2):
        return "angle_3pts of plain lists ([1,0,0], [0,0,0], [0,1,0]) is not pi/2"
    return None


def law_cotan(t):
    f, ang = t.g(GEO, "cotan"), t.g(GEO, "angle_3pts")
    for a, b, c in _triples(8, 23) + _triples(4, 24, False):
        got = t.num(t.call(f, t.vec(a), t.vec(b), t.vec(c), what="cotan"))
        u, v = _sub(a, b), _sub(c, b)
        want = _dot(u, v) / _len(_cross(u, v))
        if not close(got, want, 1e-8):
            return f"cotan({fmt(a)}, {fmt(b)}, {fmt(c)}) = {fmt(got)}, the cotangent of the angle at the middle point is {fmt(want)}"
        th = t.num(t.call(ang, t.vec(a), t.vec(b), t.vec(c), what="angle_3pts"))
        if abs(math.sin(th)) > 1e-6 and not close(got * math.tan(th), 1.0, 1e-7) and abs(math.cos(th)) > 1e-6:
            return f"cotan({fmt(a)}, {fmt(b)}, {fmt(c)}) = {fmt(got)} is not the reciprocal of tan(angle_3pts) = {fmt(math.tan(th))}"
    return None


def law_signed_angle(t):
    f2, f3, un = t.g(GEO, "signed_angle_2vec3D"), t.g(GEO, "signed_angle_3pts"), t.g(GEO, "angle_2vec3D")
    sign0 = lambda x: 1 if x >= 0 else -1
    normals = _int_vectors(6, 3, 31)
    for (a, b, c), n in zip(_triples(8, 25) + _triples(3, 26, False), normals * 2):
        u, v = _sub(a, b), _sub(c, b)
        s = _dot(_cross(u, v), n)
        if abs(s) < 1e-9:
            continue
        want = sign0(s) * _angle(u, v)
        got = t.num(t.call(f2, t.vec(u), t.vec(v), t.vec(n), what="signed_angle_2vec3D"))
        if not close(got, want):
            return f"signed_angle_2vec3D({fmt(u)}, {fmt(v)}, normal {fmt(n)}) = {fmt(got)}, expected {fmt(want)}"
        anti = t.num(t.call(f2, t.vec(v), t.vec(u), t.vec(n), what="signed_angle_2vec3D"))
        if not close(anti, -got):
            return f"signed_angle_2vec3D is not antisymmetric: ({fmt(u)}, {fmt(v)}) gives {fmt(got)}, ({fmt(v)}, {fmt(u)}) gives {fmt(anti)}"
        un_got = t.num(t.call(un, t.vec(u), t.vec(v), what="angle_2vec3D"))
        if not close(un_got, _angle(u, v)):
            return f"angle_2vec3D({fmt(u)}, {fmt(v)}) = {fmt(un_got)}, expected {fmt(_angle(u, v))}"
        sym = t.num(t.call(un, t.vec(v), t.vec(u), what="angle_2vec3D"))
        if not close(un_got, sym) or not (-1e-12 <= un_got <= math.pi + 1e-12):
            return f"angle_2vec3D({fmt(u)}, {fmt(v)}) = {fmt(un_got)} is not symmetric / not in [0, pi]"
        got3 = t.num(t.call(f3, t.vec(a), t.vec(b), t.vec(c), t.vec(n), what="signed_angle_3pts"))
        if not close(got3, want):
            return f"signed_angle_3pts({fmt(a)}, {fmt(b)}, {fmt(c)}, normal {fmt(n)}) = {fmt(got3)}, the signed angle at the middle point is {fmt(want)}"
    return None


def law_angle_2d(t):
    f = t.g(GEO, "angle_2vec2D")
    vs = [v for v in _int_vectors(10, 2, 33) + _float_vectors(4, 2, 34) if any(v)]
    for a, b in zip(vs, vs[1:] + vs[:1]):
        got = t.num(t.call(f, t.vec(a), t.vec(b), what="angle_2vec2D"))
        want = math.atan2(a[0] * b[1] - a[1] * b[0], _dot(a, b))
        if not _congruent(got, want):
            return f"angle_2vec2D({fmt(a)}, {fmt(b)}) = {fmt(got)} is not the oriented angle {fmt(want)} (modulo 2*pi)"
        anti = t.num(t.call(f, t.vec(b), t.vec(a), what="angle_2vec2D"))
        if not _congruent(anti, -got):
            return f"angle_2vec2D is not antisymmetric on ({fmt(a)}, {fmt(b)})"
    return None


def law_face_basis(t):
    f = t.g(GEO, "face_basis")
    for a, b, c in _triples(8, 41) + _triples(3, 42, False):
        for form in ("three arguments", "one list"):
            pts = [t.vec(a), t.vec(b), t.vec(c)]
            r = t.call(f, *pts, what="face_basis") if form == "three arguments" else t.call(f, pts, what="face_basis")
            X, Y, Z = (t.nums(x) for x in t.it.iterate(r))
            ab, ac = _sub(b, a), _sub(c, a)
            n = _cross(ab, ac)
            wx, wz = [x / _len(ab) for x in ab], [x / _len(n) for x in n]
            wy = _cross(wz, wx)
            if not (vclose(X, wx, 1e-8) and vclose(Y, wy, 1e-8) and vclose(Z, wz, 1e-8)):
                return (f"face_basis({fmt(a)}, {fmt(b)}, {fmt(c)}) [{form}] = {fmt(X)}, {fmt(Y)}, {fmt(Z)}: expected the right-handed orthonormal "
                        f"frame {fmt(wx)}, {fmt(wy)}, {fmt(wz)} (first vector along AB, third along AB x AC)")
    return None


def law_areas(t):
    tri, tri2, quad = t.g(GEO, "triangle_area"), t.g(GEO, "triangle_area_2D"), t.g(GEO, "quad_area")
    for a, b, c in _triples(6, 43) + _triples(3, 44, False):
        got = t.num(t.call(tri, t.vec(a), t.vec(b), t.vec(c), what="triangle_area"))
        want = _len(_cross(_sub(b, a), _sub(c, a))) / 2
        if not close(got, want):
            return f"triangle_area({fmt(a)}, {fmt(b)}, {fmt(c)}) = {fmt(got)}, expected {fmt(want)}"
        a2, b2, c2 = a[:2], b[:2], c[:2]
        got = t.num(t.call(tri2, t.vec(a2), t.vec(b2), t.vec(c2), what="triangle_area_2D"))
        want = abs((b2[0] - a2[0]) * (c2[1] - a2[1]) - (b2[1] - a2[1]) * (c2[0] - a2[0])) / 2
        if not close(got, want):
            return f"triangle_area_2D({fmt(a2)}, {fmt(b2)}, {fmt(c2)}) = {fmt(got)}, expected {fmt(want)}"
    # planar convex quads: origin + s*U, + s*U + r*V ... in a tilted plane
    for o, u, v, coords in (([1., 2., 3.], [1., 0., 1.], [0., 2., 0.], [(0, 0), (2, 0), (3, 2), (0, 1)]),
                            ([0., 0., 0.], [1., 0., 0.], [0., 1., 0.], [(0, 0), (1, 0), (1, 1), (0, 1)]),
                            ([0., -1., 2.], [2., 1., 0.], [-1., 2., 1.], [(0, 0), (3, 1), (2, 3), (-1, 2)])):
        pts = [[o[k] + s * u[k] + r * v[k] for k in range(3)] for s, r in coords]
        shoelace = abs(sum(coords[i][0] * coords[(i + 1) % 4][1] - coords[(i + 1) % 4][0] * coords[i][1] for i in range(4))) / 2
        want = shoelace * _len(_cross(u, v))
        got = t.num(t.call(quad, *[t.vec(p) for p in pts], what="quad_area"))
        if not close(got, want):
            return f"quad_area of the planar convex quad {fmt(pts)} = {fmt(got)}, its area is {fmt(want)}"
    return None


def law_circumcenter(t):
    f = t.g(GEO, "circumcenter")
    for a, b, c in _triples(7, 45) + _triples(3, 46, False):
        o = t.nums(t.call(f, t.vec([float(x) for x in a]), t.vec([float(x) for x in b]), t.vec([float(x) for x in c]), what="circumcenter"))
        d = [_len(_sub(o, p)) for p in (a, b, c)]
        if not (close(d[0], d[1], 1e-7) and close(d[0], d[2], 1e-7)):
            return f"circumcenter({fmt(a)}, {fmt(b)}, {fmt(c)}) = {fmt(o)} is at distances {fmt(d)} from the three points"
        n = _cross(_sub(b, a), _sub(c, a))
        if abs(_dot(_sub(o, a), n)) > 1e-7 * (1 + _len(n)) * (1 + _len(_sub(o, a))):
            return f"circumcenter({fmt(a)}, {fmt(b)}, {fmt(c)}) = {fmt(o)} does not lie in the plane of the triangle"
    return None


def law_aspect_ratio(t):
    f = t.g(GEO, "aspect_ratio")
    eq = [[0., 0., 0.], [1., 0., 0.], [0.5, math.sqrt(3) / 2, 0.]]
    got = t.num(t.call(f, *[t.vec(p) for p in eq], what="aspect_ratio"))
    if not close(got, 1.0, 1e-8):
        return f"aspect_ratio of an equilateral triangle = {fmt(got)}, expected 1"
    for a, b, c in _triples(6, 47) + _triples(3, 48, False):
        la, lb, lc = _len(_sub(b, c)), _len(_sub(c, a)), _len(_sub(a, b))
        s = (la + lb + lc) / 2
        area = math.sqrt(max(s * (s - la) * (s - lb) * (s - lc), 0.))
        want = (la * lb * lc / (4 * area)) / (2 * area / s)          # circumradius / (2 * inradius)
        got = t.num(t.call(f, t.vec(a), t.vec(b), t.vec(c), what="aspect_ratio"))
        if not close(got, want, 1e-7):
            return f"aspect_ratio({fmt(a)}, {fmt(b)}, {fmt(c)}) = {fmt(got)}, circumradius / (2 inradius) = {fmt(want)}"
    return None


def law_lines(t):
    inter, seg, plane = t.g(GEO, "intersect_2lines2D"), t.g(GEO, "distance_to_segment2D"), t.g(GEO, "project_to_plane")
    vs = [v for v in _int_vectors(12, 2, 51) if any(v)]
    for p1, d1, p2, d2 in zip(vs, vs[1:], vs[2:], vs[3:]):
        det = d1[0] * d2[1] - d1[1] * d2[0]
        r = t.call(inter, t.vec([float(x) for x in p1]), t.vec([float(x) for x in d1]), t.vec([float(x) for x in p2]), t.vec([float(x) for x in d2]),
                   what="intersect_2lines2D")
        if det == 0:
            if r is not None:
                return f"intersect_2lines2D with the parallel directions {fmt(d1)}, {fmt(d2)} does not return None"
            continue
        q = t.nums(r)
        e1, e2 = _sub(q, p1), _sub(q, p2)
        if abs(e1[0] * d1[1] - e1[1] * d1[0]) > 1e-8 * (1 + _len(e1)) * _len(d1) or abs(e2[0] * d2[1] - e2[1] * d2[0]) > 1e-8 * (1 + _len(e2)) * _len(d2):
            return f"intersect_2lines2D({fmt(p1)}, {fmt(d1)}, {fmt(p2)}, {fmt(d2)}) = {fmt(q)} does not lie on both lines"
    for p, a, b in zip(vs, vs[2:], vs[5:]):
        ab = _sub(b, a)
        L = _dot(ab, ab)
        if L == 0:
            continue
        s = max(0., min(1., _dot(_sub(p, a), ab) / L))
        want = _len(_sub(p, [a[k] + s * ab[k] for k in range(2)]))
        got = t.num(t.call(seg, t.vec([float(x) for x in p]), t.vec([float(x) for x in a]), t.vec([float(x) for x in b]), what="distance_to_segment2D"))
        if not close(got, want):
            return f"distance_to_segment2D({fmt(p)}, {fmt(a)}, {fmt(b)}) = {fmt(got)}, expected {fmt(want)}"
    for p, n, o in _triples(5, 52) + _triples(2, 53, False):
        if not any(n):
            continue
        q = t.nums(t.call(plane, t.vec([float(x) for x in p]), t.vec([float(x) for x in n]), t.vec([float(x) for x in o]), what="project_to_plane"))
        if abs(_dot(_sub(q, o), n)) > 1e-8 * (1 + _len(q)) * _len(n) or _len(_cross(_sub(p, q), n)) > 1e-8 * (1 + _len(p)) * _len(n):
            return f"project_to_plane({fmt(p)}, normal {fmt(n)}, origin {fmt(o)}) = {fmt(q)} is not the orthogonal projection onto the plane"
    return None


# ================================================================================================ rotations
ROT = "geometry.rotations"


def _rodrigues(v, axis, ang):
    k = [x / _len(axis) for x in axis]
    c, s = math.cos(ang), math.sin(ang)
    kv, kd = _cross(k, v), _dot(k, v)
    return [v[i] * c + kv[i] * s + k[i] * kd * (1 - c) for i in range(3)]


def law_rotate_2d(t):
    f = t.g(ROT, "rotate_2d")
    for v in ([1, 0], [2, -3], [0.5, 1.25], [-1.5, 0.25], [0, 4]):
        for ang in (0.3, -1.1, math.pi / 2, 2.5, -4.0, 0.0):
            got = t.nums(t.call(f, t.vec(v), ang, what="rotate_2d"))
            c, s = math.cos(ang), math.sin(ang)
            want = [v[0] * c - v[1] * s, v[0] * s + v[1] * c]
            if not vclose(got, want):
                return (f"rotate_2d({fmt(v)}{' [integer vector]' if isinstance(v[0], int) else ''}, {ang:.4g}) = {fmt(got)}, the rotation of "
                        f"angle {ang:.4g} gives {fmt(want)} (norm {fmt(_len(got))} instead of {fmt(_len(v))})")
    got = t.nums(t.call(f, t.call(f, t.vec([1.5, -2.]), 0.4, what="rotate_2d"), 0.9, what="rotate_2d"))
    once = t.nums(t.call(f, t.vec([1.5, -2.]), 1.3, what="rotate_2d"))
    if not vclose(got, once):
        return "rotate_2d does not compose additively: rotating (1.5, -2) by 0.4 then 0.9 differs from rotating by 1.3"
    return None


def law_rotate_axis(t):
    f = t.g(ROT, "rotate_around_axis")
    vecs = [[1, 0, 0], [2, -1, 3], [0.5, 1.25, -2.], [0., 0., 1.5], [-3, 2, 2]]
    axes = [[0, 0, 1], [1., 1., 0.], [0.3, -2., 1.], [2, 0, 0], [-1., 0.5, 0.25]]
    for v in vecs:
        for ax in axes:
            for ang in (math.pi / 4, -1.1, 2.5, math.pi, 0.0, 7.0):
                got = t.nums(t.call(f, t.vec(v), t.vec(ax), ang, what="rotate_around_axis"))
                want = _rodrigues(v, ax, ang)
                if not vclose(got, want, 1e-8):
                    kind_ = " [integer vector]" if isinstance(v[0], int) else ""
                    return (f"rotate_around_axis({fmt(v)}{kind_}, axis {fmt(ax)}, {ang:.4g}) = {fmt(got)}, the rotation gives {fmt(want)} "
                            f"(norm {fmt(_len(got))} instead of {fmt(_len(v))})")
    for ax in axes:
        got = t.nums(t.call(f, t.vec([float(x) for x in ax]), t.vec(ax), 1.234, what="rotate_around_axis"))
        if not vclose(got, [float(x) for x in ax], 1e-8):
            return f"rotate_around_axis does not fix its axis {fmt(ax)}: {fmt(got)}"
    v, ax = [0.5, 1.25, -2.], [0.3, -2., 1.]
    twice = t.nums(t.call(f, t.call(f, t.vec(v), t.vec(ax), 0.4, what="rotate_around_axis"), t.vec(ax), 0.9, what="rotate_around_axis"))
    once = t.nums(t.call(f, t.vec(v), t.vec(ax), 1.3, what="rotate_around_axis"))
    if not vclose(twice, once, 1e-8):
        return "rotate_around_axis does not compose additively: angles 0.4 then 0.9 about the same axis differ from 1.3"
    return None


def law_axis_rot_from_z(t):
    f = t.g(ROT, "axis_rot_from_z")
    for v in ([1., 0., 0.], [1., 2., 2.], [-0.5, 0.25, -1.], [0., 3., -0.1]):
        r = t.nums(t.call(f, t.vec(v), what="axis_rot_from_z"))
        ang = _len(r)
        if ang < 1e-12:
            return f"axis_rot_from_z({fmt(v)}) is the null rotation"
        got = _rodrigues([0., 0., 1.], r, ang)
        want = [x / _len(v) for x in v]
        if not vclose(got, want, 1e-7):
            return f"axis_rot_from_z({fmt(v)}) = {fmt(r)} rotates the z axis onto {fmt(got)}, not onto {fmt(want)}"
    return None


# ================================================================================================ exact clauses (rotations)
# The table laws above decide the rotations on sampled angles.  The clauses below are exact: the function is evaluated once on
# SYMBOLIC input (hh_sym: coordinates x0, x1, x2, an angle whose cosine / sine are the atoms C, S with S^2 = 1 - C^2, a unit axis
# (U, V, W) with W^2 = 1 - U^2 - V^2); the returned coordinates are polynomials, the matrix of the map is read off as their
# coefficients and the identities are decided on the normal forms.  Returns (verdict, text) with verdict 'ok' | 'fail' | 'undecided'.
from . import hh_sym as SY
from ..sym import Poly as _P


def _matrix(comps, xs):
    """rows of the matrix of a map whose components are polynomials, linear in the atoms xs"""
    rows = []
    for c in comps:
        p = c.p if isinstance(c, SY.SymNum) else _P.const(SY.Fraction(c))
        row = []
        rest = p
        for x in xs:
            if p.degree_in(x) > 1:
                raise Unknown("the result is not linear in the input vector")
            co = p.coeff(x)
            if any(y in co.atoms() for y in xs):
                raise Unknown("the result is not linear in the input vector")
            row.append(co)
            rest = rest.without(x)
        if not rest.is_zero():
            raise Unknown("the result has a part that does not depend on the input vector")
        rows.append(row)
    return rows


def _z(p):
    return SY.reduce(p).is_zero()


def _run_exact(body):
    try:
        return body()
    except Unknown as ex:
        return "undecided", f"outside the exactly evaluated subset: {ex}"
    except Raised as ex:
        return "undecided", f"the symbolic evaluation raises: {ex}"
    except Exception as ex:  # noqa
        return "undecided", f"the symbolic evaluation gave up: {type(ex).__name__}: {ex}"


def exact_rotate_2d(t):
    def body():
        C, S = _P.atom("C"), _P.atom("S")
        with SY.relations([("S", _P.const(1) - C * C)]):
            th = SY.angle("theta", 0.7)
            v = t.vec([SY.SymNum.atom("x0", 0.9), SY.SymNum.atom("x1", -1.3)])
            r = t.call(t.g(ROT, "rotate_2d"), v, th, what="rotate_2d")
            comps = t.nums(r)
            if len(comps) != 2:
                return "fail", f"the result has {len(comps)} components"
            M = _matrix(comps, ["x0", "x1"])
            want = [[C, -S], [S, C]]
            bad = [(i, j) for i in range(2) for j in range(2) if not _z(M[i][j] - want[i][j])]
            if bad:
                i, j = bad[0]
                mtm = all(_z(sum((M[k][a] * M[k][b] for k in range(2)), _P()) - _P.const(1 if a == b else 0)) for a in range(2) for b in range(2))
                return "fail", (f"matrix entry ({i},{j}) is {SY.reduce(M[i][j])}, the rotation matrix [[cos, -sin], [sin, cos]] has {want[i][j]} there "
                                f"(C = cos, S = sin of the angle; M^T M = I {'holds' if mtm else 'fails'} identically)")
            return "ok", "matrix = [[C, -S], [S, C]] identically in the angle and the input"
    return _run_exact(body)


def exact_rotate_axis(t):
    def body():
        C, S, U, V, W = (_P.atom(a) for a in "CSUVW")
        one = _P.const(1)
        with SY.relations([("S", one - C * C), ("W", one - U * U - V * V)]):
            th = SY.angle("theta", 0.7)
            u0, v0 = 0.3, -0.5
            w0 = math.sqrt(1 - u0 * u0 - v0 * v0)
            axis = t.vec([SY.SymNum.atom("U", u0), SY.SymNum.atom("V", v0), SY.SymNum.atom("W", w0)])
            inp = t.vec([SY.SymNum.atom("x0", 0.9), SY.SymNum.atom("x1", -1.3), SY.SymNum.atom("x2", 0.4)])
            r = t.call(t.g(ROT, "rotate_around_axis"), inp, axis, th, what="rotate_around_axis")
            comps = t.nums(r)
            if len(comps) != 3:
                return "fail", f"the result has {len(comps)} components"
            R = _matrix(comps, ["x0", "x1", "x2"])
            a = [U, V, W]
            ortho = all(_z(sum((R[k][i] * R[k][j] for k in range(3)), _P()) - _P.const(1 if i == j else 0)) for i in range(3) for j in range(3))
            det = SY.reduce(R[0][0] * (R[1][1] * R[2][2] - R[1][2] * R[2][1]) - R[0][1] * (R[1][0] * R[2][2] - R[1][2] * R[2][0])
                            + R[0][2] * (R[1][0] * R[2][1] - R[1][1] * R[2][0]))
            fixes = all(_z(R[i][0] * a[0] + R[i][1] * a[1] + R[i][2] * a[2] - a[i]) for i in range(3))
            K = [[_P(), -W, V], [W, _P(), -U], [-V, U, _P()]]
            rod = [[(C if i == j else _P()) + (one - C) * a[i] * a[j] + S * K[i][j] for j in range(3)] for i in range(3)]
            same = all(_z(R[i][j] - rod[i][j]) for i in range(3) for j in range(3))
            trace = SY.reduce(R[0][0] + R[1][1] + R[2][2])
            if not ortho:
                return "fail", "R^T R = I does not hold identically modulo cos^2 + sin^2 = 1 and |axis| = 1: the map is not an isometry"
            if not (det == one):
                return "fail", f"det R = {det}, not 1, identically: the map is not a proper rotation"
            if not fixes:
                return "fail", "R axis = axis does not hold identically: the axis is not fixed"
            if not same:
                return "fail", (f"R is an isometry fixing the axis but not Rodrigues' matrix of (axis, angle): trace R = {trace} instead of 1 + 2*C, "
                                f"or the sense of rotation is reversed")
            return "ok", "R^T R = I, det R = 1, R axis = axis and R = Rodrigues' matrix, identically modulo cos^2+sin^2 = 1 and |axis| = 1"
    return _run_exact(body)
