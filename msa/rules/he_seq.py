"""Sequence forms (owned by the C07/C08 checker): what the i-th item of an iterable is, independent of how the iteration is spelled.

  for i in range(n): A, B = pts[i], pts[(i+1) % n]          for A, B in zip(pts, pts[1:] + pts[:1])
  for A, B in cyclic_pairs(pts)                             for c, (p, v, q) in enumerate(zip(prev, pts, nxt), start=c0)

all describe items by *descriptors* relative to a base sequence B of length N = len(B):

  ("at", key(B), shift, cyclic)   the element B[i + shift]  (B[(i + shift) % N] when cyclic)
  ("idx", key(B) | None, offset)  the integer i + offset   (offset: Poly)
  ("tup", [descriptors])          a tuple of items
  ("expr", node)                  anything else

`Seq(length, item)`: length is a Poly over the atom "N:<key>".  `LoopCtx` applies this to a `for` statement or a comprehension
generator and describes expressions of the loop body (names of the target, subscripts `B[i + k]`, `B[(i + k) % n]`)."""
from __future__ import annotations
import ast
from fractions import Fraction
from .. import au, sym
from ..sym import Poly
from . import he_norm


class Seq:
    def __init__(self, length, item, base=None):
        self.length, self.item, self.base = length, item, base

    def __repr__(self):
        return f"Seq(len={self.length}, item={show(self.item)})"


def full(seq):
    """True / False when the sequence is known (not) to run over all the positions of its base, None when its length is unknown"""
    if seq is None or seq.length is None or seq.base is None:
        return None
    return seq.length == N(seq.base)


def show(d):
    if d is None:
        return "?"
    if d[0] == "at":
        return f"{d[1]}[(i{d[2]:+d}) % n]" if d[3] else f"{d[1]}[i{d[2]:+d}]"
    if d[0] == "idx":
        return f"i+{d[2]}"
    if d[0] == "tup":
        return "(" + ", ".join(show(x) for x in d[1]) + ")"
    if d[0] == "elt":
        return f"{show(d[1])}.{d[2]}"
    return au.src(d[1])


def N(key):
    return Poly.atom("N:" + key)


class Forms:
    def __init__(self, fn, repo=None, modname=None):
        self.b = sym.Bindings(fn)
        self.fn, self.repo, self.modname = fn, repo, modname

    def key(self, e, at):
        """identity of a base sequence; the list of the points of a vertex row is keyed by that row (same positions, same length)"""
        r = self.points_of(e, at) if not isinstance(e, (ast.ListComp, ast.GeneratorExp)) or True else None
        if r is not None:
            return au.src(r[0])
        return au.src(e)

    def len_of(self, e, at):
        """Poly of an integer expression where len(B) -> N:B and names bound to such lengths are resolved"""
        def atom(x):
            if isinstance(x, ast.Call) and au.call_tail(x) == "len" and len(x.args) == 1 and isinstance(x.func, ast.Name):
                return N(self.key(x.args[0], at))
            return None
        r = self.b.resolve(e, at=at)
        try:
            return sym.to_poly(r, atom_of=atom, opaque=False)
        except sym.NotPoly:
            return None

    # ------------------------------------------------------------------ sequence of an iterable expression
    def seq(self, e, at, depth=0):
        if depth > 8 or e is None:
            return None
        rec = lambda x: self.seq(x, at, depth + 1)
        if isinstance(e, ast.Name):
            d = self.b.reaching(e.id, at)
            if d is not None and self._structural(d):
                s = self.seq(d, self.b._last_def_stmt, depth + 1)
                if s is not None:
                    return s
            k = self.key(e, at)
            return Seq(N(k), ("at", k, 0, False), k)
        if isinstance(e, (ast.Attribute,)) or (isinstance(e, ast.Subscript) and not isinstance(e.slice, ast.Slice)):
            k = self.key(e, at)
            return Seq(N(k), ("at", k, 0, False), k)
        if isinstance(e, ast.Subscript) and isinstance(e.slice, ast.Slice):
            s = rec(e.value)
            if s is None or s.item[0] != "at" or e.slice.step is not None:
                return None
            lo = he_norm._int(e.slice.lower) if e.slice.lower is not None else None
            hi = he_norm._int(e.slice.upper) if e.slice.upper is not None else None
            if (e.slice.lower is not None and lo is None) or (e.slice.upper is not None and hi is None):
                return None
            _, k, sh, cyc = s.item
            if s.length is None or not (s.length == N(k) and sh == 0):
                return None          # only slices of a whole base
            n = N(k)
            if lo is None and hi is None:
                return s
            if hi is None:
                return Seq(n - lo, ("at", k, lo, False), k) if lo >= 0 else Seq(Poly.const(-lo), ("at", k, lo, True), k)
            if lo is None:
                return Seq(Poly.const(hi), ("at", k, 0, False), k) if hi >= 0 else Seq(n + hi, ("at", k, 0, False), k)
            return None
        if isinstance(e, ast.BinOp) and isinstance(e.op, ast.Add):
            a, c = rec(e.left), rec(e.right)
            if a is None or c is None or a.item[0] != "at" or c.item[0] != "at" or a.item[1] != c.item[1] or a.length is None or c.length is None:
                return None
            k = a.item[1]
            n = N(k)
            # position L1 + j holds base[j + s2]; a rotation by s1 needs s2 = L1 + s1 (mod N)
            diff = Poly.const(c.item[2]) - a.length - Poly.const(a.item[2])
            tot = a.length + c.length
            if tot == n and _multiple_of(diff, "N:" + k):
                return Seq(n, ("at", k, a.item[2], True), k)
            return None
        if isinstance(e, (ast.ListComp, ast.GeneratorExp)) and len(e.generators) == 1 and not e.generators[0].ifs:
            return None      # element-wise maps are bases of their own (see points_of)
        if isinstance(e, ast.Call):
            t = au.call_tail(e)
            if isinstance(e.func, ast.Name) and t in ("list", "tuple", "iter") and len(e.args) == 1:
                return rec(e.args[0])
            if isinstance(e.func, ast.Name) and t == "zip" and e.args:
                ss = [rec(a) for a in e.args]
                if any(s is None for s in ss):
                    return None
                ln = ss[0].length
                for s in ss[1:]:
                    ln = _min(ln, s.length) if ln is not None and s.length is not None else None
                # length None: the shortest argument is not known statically (items are still described position by position)
                return Seq(ln, ("tup", [s.item for s in ss]), ss[0].base)
            if isinstance(e.func, ast.Name) and t == "enumerate" and e.args:
                s = rec(e.args[0])
                start = e.args[1] if len(e.args) > 1 else None
                for kw in e.keywords:
                    if kw.arg == "start":
                        start = kw.value
                off = Poly() if start is None else self._opaque_poly(start, at)
                if s is None:
                    k = self.key(e.args[0], at)
                    s = Seq(N(k), ("at", k, 0, False), k)
                return Seq(s.length, ("tup", [("idx", s.base, off), s.item]), s.base)
            if isinstance(e.func, ast.Name) and t == "range" and 1 <= len(e.args) <= 2:
                lo = Poly() if len(e.args) == 1 else self.len_of(e.args[0], at)
                hi = self.len_of(e.args[-1], at)
                if hi is None or lo is None:
                    return None
                bases = {a[2:] for a in hi.atoms() if a.startswith("N:")}
                base = bases.pop() if len(bases) == 1 else None
                return Seq(hi - lo, ("idx", base, lo), base)
            if self.repo is not None and e.args and not e.keywords and len(e.args) == 1:
                g = he_norm._resolve_any(self.repo, self.modname, e.func)
                if g is not None:
                    s = rec(e.args[0])
                    if s is not None and s.item[0] == "at" and s.item[2] == 0 and not s.item[3] and s.length == N(s.item[1]):
                        return generator_form(g, s.item[1])
        return None

    def _structural(self, d):
        return (isinstance(d, ast.BinOp) and isinstance(d.op, ast.Add)) or (isinstance(d, ast.Subscript) and isinstance(d.slice, ast.Slice)) \
            or (isinstance(d, ast.Call) and au.call_tail(d) in ("zip", "enumerate", "reversed", "list", "tuple", "cyclic_pairs", "cyclic_triplets",
                                                               "consecutive_pairs", "consecutive_triplets", "range"))

    def _opaque_poly(self, e, at):
        try:
            return sym.to_poly(e, opaque=True)
        except Exception:
            return Poly.atom(au.src(e))

    def unpacked(self, name, at):
        """expression of a name bound by unpacking a comprehension over a sequence:  a, b, c = (f(u) for u in R)  ->  b is f(R[1])
        (R[:k] / R[0:k] count like R).  None when `name` is not bound that way before `at`."""
        cur = au.enclosing_stmt(at)
        while cur is not None and not isinstance(cur, (ast.FunctionDef, ast.AsyncFunctionDef)):
            blk, owner = au.enclosing_block(cur)
            if blk is None:
                return None
            idx = [id(x) for x in blk].index(id(cur))
            for s in reversed(blk[:idx]):
                if isinstance(s, ast.Assign) and len(s.targets) == 1 and isinstance(s.targets[0], (ast.Tuple, ast.List)):
                    t, v = s.targets[0], s.value
                    names = [x.id if isinstance(x, ast.Name) else None for x in t.elts]
                    if name in names:
                        if isinstance(v, (ast.GeneratorExp, ast.ListComp)) and len(v.generators) == 1 and not v.generators[0].ifs \
                                and isinstance(v.generators[0].target, ast.Name):
                            R = v.generators[0].iter
                            if isinstance(R, ast.Subscript) and isinstance(R.slice, ast.Slice) and R.slice.step is None \
                                    and (R.slice.lower is None or au.const(R.slice.lower) == 0):
                                R = R.value
                            if isinstance(R, (ast.Name, ast.Attribute, ast.Subscript)):
                                item = ast.Subscript(value=sym.clone(R), slice=ast.Constant(value=names.index(name)), ctx=ast.Load())
                                return sym.subst(v.elt, {v.generators[0].target.id: item}), s
                        return None
                if sym.Bindings._assigns(s, name):
                    return None
            cur = owner if isinstance(owner, ast.stmt) else None
        return None

    # ------------------------------------------------------------------ element-wise maps
    def points_of(self, e, at):
        """R when `e` (resolved) is  [mesh.vertices[v] for v in R]  /  (mesh.vertices[v] for v in R) / list(...) of it: the points of
        the vertex row R, position by position"""
        r = e
        for _ in range(4):
            if isinstance(r, ast.Name):
                d = self.b.reaching(r.id, at)
                if d is None:
                    return None
                r, at = d, self.b._last_def_stmt
            elif isinstance(r, ast.Call) and isinstance(r.func, ast.Name) and r.func.id in ("list", "tuple") and len(r.args) == 1:
                r = r.args[0]
            else:
                break
        if isinstance(r, (ast.ListComp, ast.GeneratorExp)) and len(r.generators) == 1 and not r.generators[0].ifs \
                and isinstance(r.generators[0].target, ast.Name):
            v = vertex_index(r.elt)
            if isinstance(v, ast.Name) and v.id == r.generators[0].target.id:
                return r.generators[0].iter, at
        return None


def vertex_index(e):
    """X if e is `<mesh>.vertices[X]` (possibly wrapped in Vec(...) / np.array(...)/ np.asarray)"""
    while isinstance(e, ast.Call) and au.call_tail(e) in ("Vec", "array", "asarray") and len(e.args) >= 1:
        e = e.args[0]
    if isinstance(e, ast.Subscript) and isinstance(e.value, ast.Attribute) and e.value.attr == "vertices" and not isinstance(e.slice, (ast.Slice, ast.Tuple)):
        return e.slice
    return None


def _multiple_of(p, atom):
    """p == k * atom for an integer k"""
    for mono, c in p.t.items():
        if mono != (atom,) or c.denominator != 1:
            return False
    return True


def _min(a, b):
    if a == b:
        return a
    d = a - b
    if d.is_const():
        return a if d.const_value() < 0 else b
    return None


def generator_form(fn, key):
    """Seq of a small generator of the package applied to the base `key`:  [n = len(L)]  for i in range(<affine in n>): yield <L[..] ...>"""
    ps = [p.arg for p in fn.args.args]
    if len(ps) != 1 or fn.args.vararg or fn.args.kwarg:
        return None
    L = ps[0]
    env = {}
    n = N(key)

    def intpoly(e):
        def atom(x):
            if isinstance(x, ast.Call) and au.call_tail(x) == "len" and len(x.args) == 1 and isinstance(x.args[0], ast.Name) and x.args[0].id == L:
                return n
            if isinstance(x, ast.Name) and x.id in env:
                return env[x.id]
            return None
        try:
            return sym.to_poly(e, atom_of=atom, opaque=False)
        except sym.NotPoly:
            return None
    body = [s for s in fn.body if not (isinstance(s, ast.Expr) and isinstance(s.value, ast.Constant))]
    while body and isinstance(body[0], ast.Assign) and len(body[0].targets) == 1 and isinstance(body[0].targets[0], ast.Name):
        p = intpoly(body[0].value)
        if p is None:
            return None
        env[body[0].targets[0].id] = p
        body = body[1:]
    if len(body) != 1 or not isinstance(body[0], ast.For) or not isinstance(body[0].target, ast.Name) or body[0].orelse:
        return None
    lp = body[0]
    it = lp.iter
    if not (isinstance(it, ast.Call) and isinstance(it.func, ast.Name) and it.func.id == "range" and 1 <= len(it.args) <= 2):
        return None
    lo = Poly() if len(it.args) == 1 else intpoly(it.args[0])
    hi = intpoly(it.args[-1])
    if lo is None or hi is None or not lo.is_const():
        return None
    if len(lp.body) != 1 or not (isinstance(lp.body[0], ast.Expr) and isinstance(lp.body[0].value, ast.Yield) and lp.body[0].value.value is not None):
        return None
    iv = lp.target.id
    start = int(lo.const_value())

    def item(e):
        if isinstance(e, ast.Tuple):
            ds = [item(x) for x in e.elts]
            return None if any(d is None for d in ds) else ("tup", ds)
        if isinstance(e, ast.Subscript) and isinstance(e.value, ast.Name) and e.value.id == L:
            r = index_shift(e.slice, iv, lambda m: intpoly(m) == n)
            if r is None:
                return None
            return ("at", key, r[0] + start, r[1])
        if isinstance(e, ast.Name) and e.id == iv:
            return ("idx", key, Poly.const(start))
        p = None
        if isinstance(e, ast.BinOp) and isinstance(e.op, ast.Mod) and intpoly(e.right) == n:
            return None
        return None
    d = item(lp.body[0].value.value)
    if d is None:
        return None
    return Seq(hi - lo, d, key)


def index_shift(idx, var, is_len):
    """(shift, cyclic) when idx is `var + k` or `(var + k) % n` with is_len(n)"""
    cyc = False
    e = idx
    if isinstance(e, ast.BinOp) and isinstance(e.op, ast.Mod):
        if not is_len(e.right):
            return None
        cyc, e = True, e.left
    try:
        p = sym.to_poly(e, opaque=False)
    except sym.NotPoly:
        return None
    if p.coeff(var) == Poly.const(1) and p.without(var).is_const() and p.degree_in(var) == 1:
        c = p.without(var).const_value()
        if c.denominator == 1:
            k = int(c)
            # python's negative indices wrap around: B[i - 1] is cyclic at i = 0
            return (k, cyc or k < 0)
    return None


class LoopCtx:
    """descriptors of the names bound by a `for` statement / comprehension generator"""

    def __init__(self, forms: Forms, target, iter_expr, at):
        self.forms, self.at = forms, at
        self.seq = forms.seq(iter_expr, at)
        self.names = {}
        self.rows = {}             # shown item descriptor -> names it is unpacked into
        self.index_vars = {}       # name -> (base key | None, offset Poly)
        if self.seq is not None:
            self._bind(target, self.seq.item)

    def _bind(self, t, d):
        if isinstance(t, ast.Name):
            self.names[t.id] = d
            if d is not None and d[0] == "idx":
                self.index_vars[t.id] = (d[1], d[2])
        elif isinstance(t, (ast.Tuple, ast.List)) and d is not None and d[0] == "tup" and len(d[1]) == len(t.elts):
            for a, x in zip(t.elts, d[1]):
                self._bind(a, x)
        elif isinstance(t, (ast.Tuple, ast.List)) and d is not None and d[0] == "at" and not any(isinstance(x, ast.Starred) for x in t.elts):
            # unpacking of one item (a row of vertex ids): component j of that item
            self.rows[show(d)] = [x.id if isinstance(x, ast.Name) else None for x in t.elts]
            for j, a in enumerate(t.elts):
                self._bind(a, ("elt", d, j, len(t.elts)))

    def desc(self, e, at=None):
        """descriptor of an expression of the loop body"""
        at = at or self.at
        b = self.forms.b
        if isinstance(e, ast.Name):
            if e.id in self.names:
                return self.names[e.id]
            d = b.reaching(e.id, at)
            if d is not None:
                return self.desc(d, b._last_def_stmt)
            u = self.forms.unpacked(e.id, at)
            if u is not None:
                return self.desc(u[0], u[1])
            return ("expr", e)
        vi = vertex_index(e)
        if vi is not None:
            return self.desc(vi, at)         # the point of a vertex is described by the position of that vertex
        if isinstance(e, ast.Subscript) and isinstance(e.value, ast.Name) and e.value.id in self.names and isinstance(e.slice, ast.Constant) \
                and isinstance(e.slice.value, int) and self.names[e.value.id][0] == "at":
            return ("elt", self.names[e.value.id], e.slice.value, None)
        if isinstance(e, ast.Subscript) and not isinstance(e.slice, (ast.Slice, ast.Tuple)):
            idx = b.resolve(e.slice, at=at, keep=tuple(self.index_vars))
            for v, (base, off) in self.index_vars.items():
                if v not in au.names(idx):
                    continue
                k = self.forms.key(e.value, at)
                r = index_shift(idx, v, lambda m, k=k: self.forms.len_of(m, at) == N(k))
                if r is not None and off.is_const():
                    return ("at", k, r[0] + int(off.const_value()), r[1])
        return ("expr", e)
