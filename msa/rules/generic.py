"""Generic rule families shared by several properties (each property applies them to the functions of its own anchor files).

R-ZERO   an element index (or a number) is never tested by truthiness.  Index 0 / priority 0 / weight 0.0 are legitimate values, so
         `if i`, `if not i`, `i or default`, `i and ...` silently treat them as "absent".  The rule fires only on names whose
         values are known to be indices or numbers:
           * bound from a call to one of the repository's *index-or-None* accessors (derived on every run: functions of
             mesh/datatypes/*.py that return None on one path and an index on another - edge_id, face_id, opposite_corner,
             in_cell_face_index, direct_face, half_edge_to_corner, ... - plus `dict.get` on one of the index tables they read);
           * a parameter whose default is None and that is used as a number in the same function (arithmetic, ordering comparison,
             subscript index, `range`, or replaced by a numeric alternative in `p or <number>`).
         `x is None` / `x is not None` are the accepted tests.

R-QMUT   a read accessor (property getter, or a method that only answers) must not update in place an object it reached
         through `self` without copying it: `out = self.a.b; out += more` / `out.append(..)` / `out.sort()` changes the state that
         later queries read (and the object other owners hold).

R-STALE  a quantity derived from the vertex positions (lengths, areas, angles, normals, cotangents, barycentres) that a function
         needs is computed in that call; it is not read back from a named attribute that happens to exist on the mesh
         (`has_attribute(n)` -> `get_attribute(n)`), unless the property's module lists that read as the library's documented
         caching behaviour.

Nothing here executes repository code."""
from __future__ import annotations
import ast
from .. import au

# ----------------------------------------------------------------------------------------------------------------- R-ZERO
_CONTAINERISH = (ast.List, ast.ListComp, ast.Tuple, ast.Dict, ast.Set, ast.SetComp, ast.DictComp, ast.GeneratorExp, ast.JoinedStr)


def _ret_kind(v):
    if v is None or (isinstance(v, ast.Constant) and v.value is None):
        return "none"
    if isinstance(v, ast.Tuple) and v.elts and all(isinstance(e, ast.Constant) and e.value is None for e in v.elts):
        return "none"
    if isinstance(v, ast.Call) and au.call_tail(v) == "get" and (len(v.args) == 1 or (len(v.args) == 2 and au.const(v.args[1], 0) is None)):
        return "maybe"            # d.get(k) / d.get(k, None): an entry or None
    if isinstance(v, _CONTAINERISH) or (isinstance(v, ast.Constant) and isinstance(v.value, (bool, str))):
        return "other"
    return "value"


def index_or_none_functions(repo):
    """names of the accessors of mesh/datatypes/*.py that answer `an index, or None when there is none`"""
    out = set()
    for mn, m in repo.modules.items():
        if ".mesh.datatypes." not in mn:
            continue
        for q, fn in m.funcs.items():
            if "<locals>" in q or fn.name.startswith("__"):
                continue
            ann = au.src(fn.returns) if fn.returns is not None else ""
            if ann in ("list", "bool", "set", "dict", "tuple", "str", "None") or ann.startswith(("List", "Set", "Dict", "Tuple", "Iterable")):
                continue
            kinds = [_ret_kind(st.value) for st in au.stmts(fn.body) if isinstance(st, ast.Return)]
            if not kinds:
                continue
            if ("none" in kinds and "value" in kinds) or ("maybe" in kinds and ann in ("int", "")) and "other" not in kinds:
                if "other" in kinds and ann != "int":
                    continue
                out.add(fn.name)
    # accessors returning a whole table entry (a list) are not indices
    out -= {"vertex_to_corners", "boundary_mesh", "vertex_to_faces", "corner_to_half_edge", "_sort_edge_neighborhoods"}
    return out


def _none_default_params(fn):
    a = fn.args
    pos = a.posonlyargs + a.args
    d = dict(zip([x.arg for x in pos][len(pos) - len(a.defaults):], a.defaults))
    for x, dv in zip(a.kwonlyargs, a.kw_defaults):
        if dv is not None:
            d[x.arg] = dv
    return {p for p, dv in d.items() if isinstance(dv, ast.Constant) and dv.value is None}


_NUMERIC_CALLS = {"randint", "len", "int", "float", "min", "max", "abs", "round", "sum"}


def _numeric_expr(e):
    if isinstance(e, ast.Constant) and isinstance(e.value, (int, float)) and not isinstance(e.value, bool):
        return True
    if isinstance(e, ast.Call) and au.call_tail(e) in _NUMERIC_CALLS:
        return True
    if isinstance(e, ast.BinOp) and isinstance(e.op, (ast.Add, ast.Sub, ast.Mult, ast.Div, ast.FloorDiv, ast.Mod, ast.Pow)):
        return _numeric_expr(e.left) or _numeric_expr(e.right)
    if isinstance(e, ast.UnaryOp) and isinstance(e.op, (ast.USub, ast.UAdd)):
        return _numeric_expr(e.operand)
    return False


def _used_as_number(fn, name):
    """evidence that `name` holds a number / an index inside fn"""
    for n in au.walk(fn, into_funcs=True):
        if isinstance(n, ast.BinOp) and isinstance(n.op, (ast.Add, ast.Sub, ast.Mult, ast.Div, ast.FloorDiv, ast.Mod, ast.Pow)):
            if any(isinstance(x, ast.Name) and x.id == name for x in (n.left, n.right)):
                return "arithmetic"
        if isinstance(n, ast.Compare) and any(isinstance(o, (ast.Lt, ast.LtE, ast.Gt, ast.GtE)) for o in n.ops):
            if any(isinstance(x, ast.Name) and x.id == name for x in [n.left] + n.comparators):
                return "ordering comparison"
        if isinstance(n, ast.Subscript) and isinstance(n.slice, ast.Name) and n.slice.id == name:
            return "subscript index"
        if isinstance(n, ast.Call) and au.call_tail(n) in ("range", "heappush", "PriorityItem") and any(
                isinstance(a, ast.Name) and a.id == name for a in n.args):
            return f"argument of {au.call_tail(n)}"
        if isinstance(n, ast.BoolOp) and isinstance(n.op, ast.Or) and isinstance(n.values[0], ast.Name) and n.values[0].id == name \
                and any(_numeric_expr(v) for v in n.values[1:]):
            return "numeric alternative in `or`"
        if isinstance(n, ast.AugAssign) and isinstance(n.value, ast.Name) and n.value.id == name:
            return "arithmetic"
    ann = None
    for a in fn.args.posonlyargs + fn.args.args + fn.args.kwonlyargs:
        if a.arg == name and a.annotation is not None:
            ann = au.src(a.annotation)
    if ann in ("int", "float", "Optional[int]", "Optional[float]", "Union[int, None]", "int | None", "float | None"):
        return f"annotation {ann}"
    return None


def _truthiness_operands(fn):
    """(name, node, form) for every place where a bare name is used as a truth value"""
    def bare(t):
        neg = False
        while isinstance(t, ast.UnaryOp) and isinstance(t.op, ast.Not):
            t, neg = t.operand, not neg
        return t, neg
    seen = set()
    for n in au.walk(fn, into_funcs=True):
        tests = []
        if isinstance(n, (ast.If, ast.While, ast.IfExp, ast.Assert)):
            tests.append((n.test, "condition"))
        elif isinstance(n, ast.comprehension):
            tests += [(t, "comprehension filter") for t in n.ifs]
        elif isinstance(n, ast.BoolOp):
            tests += [(v, "`or` / `and` operand") for v in n.values[:-1]]
        elif isinstance(n, ast.UnaryOp) and isinstance(n.op, ast.Not):
            tests.append((n.operand, "`not`"))
        for t, form in tests:
            t, _ = bare(t)
            parts = t.values if isinstance(t, ast.BoolOp) else [t]
            for p in parts:
                p, _ = bare(p)
                if isinstance(p, ast.Name) and (id(p)) not in seen:
                    seen.add(id(p))
                    yield p.id, p, form


def optional_index_names(fn, idx_funcs):
    """{name: accessor} for local names bound to the result of an index-or-None accessor (plain, walrus or tuple-unpacked
    `(face, i, j) = direct_face(u, v, True)` - every component is an index or None)"""
    out = {}
    for n in au.walk(fn, into_funcs=True):
        tgt = val = None
        if isinstance(n, ast.Assign) and len(n.targets) == 1:
            tgt, val = n.targets[0], n.value
        elif isinstance(n, ast.NamedExpr):
            tgt, val = n.target, n.value
        if val is None or not (isinstance(val, ast.Call) and au.call_tail(val) in idx_funcs):
            continue
        if isinstance(tgt, ast.Name):
            out[tgt.id] = au.call_tail(val)
        elif isinstance(tgt, ast.Tuple):
            for e in tgt.elts:
                if isinstance(e, ast.Name):
                    out[e.id] = au.call_tail(val)
    # collections of optional indices: `ids = [self.edge_id(V, u) for u in ...]` (list / generator / set comprehension whose element is
    # an accessor call); a loop or comprehension variable ranging over such a collection is an optional index as well
    colls = {}
    for n in au.walk(fn, into_funcs=True):
        if isinstance(n, ast.Assign) and len(n.targets) == 1 and isinstance(n.targets[0], ast.Name) \
                and isinstance(n.value, (ast.ListComp, ast.GeneratorExp, ast.SetComp)) and isinstance(n.value.elt, ast.Call) \
                and au.call_tail(n.value.elt) in idx_funcs:
            colls[n.targets[0].id] = au.call_tail(n.value.elt)
    for n in au.walk(fn, into_funcs=True):
        it = tg = None
        if isinstance(n, ast.comprehension):
            it, tg = n.iter, n.target
        elif isinstance(n, ast.For):
            it, tg = n.iter, n.target
        if it is None or not isinstance(tg, ast.Name):
            continue
        if isinstance(it, ast.Name) and it.id in colls:
            out[tg.id] = colls[it.id]
        elif isinstance(it, (ast.ListComp, ast.GeneratorExp)) and isinstance(it.elt, ast.Call) and au.call_tail(it.elt) in idx_funcs:
            out[tg.id] = au.call_tail(it.elt)
    # names rebound to something else later are still reported only at tests that the index definition reaches: keep it simple and
    # drop names with a second, non-index definition
    for n in au.walk(fn, into_funcs=True):
        if isinstance(n, ast.Assign):
            for t in n.targets:
                for nm in au.assigned_names(t):
                    if nm in out and not (isinstance(n.value, ast.Call) and au.call_tail(n.value) in idx_funcs):
                        if not (isinstance(n.value, ast.Constant) and n.value.value is None):
                            out.pop(nm, None)
    return out


def zero_truthiness(ctx, rule, modname, fn, idx_funcs, what):
    """R-ZERO on one function. Returns the number of names examined (for the instance floor of the caller)."""
    names = optional_index_names(fn, idx_funcs)
    params = {p: _used_as_number(fn, p) for p in _none_default_params(fn)}
    params = {p: why for p, why in params.items() if why}
    n = len(names) + len(params)
    q = getattr(fn, "_qualname", fn.name)
    bad = False
    for name, node, form in _truthiness_operands(fn):
        if name in names:
            bad = True
            ctx.fail(rule, ctx.site(modname, fn, node),
                     f"{q}: the result of {names[name]}() is tested by truthiness ({form}) instead of `is None`",
                     f"{names[name]}() answers an index or None; index 0 is a valid element and is treated as absent here - {what}")
        elif name in params:
            bad = True
            ctx.fail(rule, ctx.site(modname, fn, node),
                     f"{q}: the optional numeric parameter is tested by truthiness ({form}) instead of `is None`",
                     f"the parameter defaults to None and is used as a number ({params[name]}): the legitimate value 0 is replaced by the "
                     f"default - {what}")
    if n and not bad:
        ctx.ok(rule, ctx.site(modname, fn), f"{q}: {n} optional index / number value(s) never tested by truthiness")
    return n


_ZERO_FIXTURE = """
def f(self, c, face_id, start=None):
    root = start or randint(0, 3)
    iF = self.conn.in_cell_face_index(c, face_id)
    if not iF:
        return
    e = self.conn.edge_id(1, 2)
    if e and e in self.forbidden:
        return
"""


def zero_selfcheck():
    """the matcher must see the three idioms of the built-in fixture (a rule whose expected count is zero needs a positive example)"""
    tree = ast.parse(_ZERO_FIXTURE)
    for x in ast.walk(tree):
        for c in ast.iter_child_nodes(x):
            c._parent = x
    fn = tree.body[0]
    names = optional_index_names(fn, {"in_cell_face_index", "edge_id"})
    params = {p for p in _none_default_params(fn) if _used_as_number(fn, p)}
    hits = [nm for nm, _, _ in _truthiness_operands(fn) if nm in names or nm in params]
    return sorted(hits) == ["e", "iF", "start"]


# ----------------------------------------------------------------------------------------------------------------- R-QMUT
INPLACE = {"append", "extend", "insert", "sort", "reverse", "remove", "pop", "clear", "fill", "resize"}
_COPIES = {"list", "set", "dict", "tuple", "sorted", "copy", "deepcopy", "array", "frozenset"}


def _self_rooted(e):
    """is `e` an attribute / subscript chain hanging from `self` (the object itself, not a copy)?"""
    while isinstance(e, (ast.Attribute, ast.Subscript)):
        e = e.value
    return isinstance(e, ast.Name) and e.id == "self"


def query_mutations(fn):
    """in-place updates, inside fn, of a local name that is bound (by plain assignment) to an object reached through `self`"""
    alias = {}
    for st in au.stmts(fn.body):
        if isinstance(st, ast.Assign) and len(st.targets) == 1 and isinstance(st.targets[0], ast.Name):
            v = st.value
            if isinstance(v, (ast.Attribute, ast.Subscript)) and _self_rooted(v) and not (isinstance(v, ast.Subscript) and isinstance(v.slice, ast.Slice)):
                alias.setdefault(st.targets[0].id, []).append((st, au.src(v)))
            else:
                alias.pop(st.targets[0].id, None) if not isinstance(v, ast.Name) else None
    out = []
    for n in au.walk(fn):
        if isinstance(n, ast.AugAssign) and isinstance(n.target, ast.Name) and n.target.id in alias:
            out.append((n, n.target.id, alias[n.target.id][0][1], f"augmented assignment `{au.src(n)[:60]}`"))
        elif isinstance(n, ast.Call) and isinstance(n.func, ast.Attribute) and n.func.attr in INPLACE and isinstance(n.func.value, ast.Name) \
                and n.func.value.id in alias:
            out.append((n, n.func.value.id, alias[n.func.value.id][0][1], f"`.{n.func.attr}(..)`"))
        # item stores through an alias (`cache = self._cache; cache[k] = v`) are not reported: memoisation and path compression are
        # legitimate writes of a query; growth / reordering of a stored sequence or set is what changes later answers
    # only the updates that the alias definition reaches (the alias must be defined before, in source order)
    return [(n, nm, src, how) for n, nm, src, how in out if any(st.lineno <= n.lineno for st, _ in alias[nm])]


def is_property(fn):
    return any((isinstance(d, ast.Name) and d.id == "property") or (isinstance(d, ast.Attribute) and d.attr in ("getter",))
               for d in fn.decorator_list)


def query_no_mutation(ctx, rule, modname, fn, what):
    q = getattr(fn, "_qualname", fn.name)
    hits = query_mutations(fn)
    for n, nm, src, how in hits:
        ctx.fail(rule, ctx.site(modname, fn, n),
                 f"{q}: a value read from `{src}` is updated in place ({how.split('`')[0].strip() or how}) by a read accessor",
                 f"the name is bound to the stored object itself, not to a copy: {how} changes what later queries (and the object's "
                 f"other owners) see - {what}")
    if not hits:
        ctx.ok(rule, ctx.site(modname, fn), f"{q}: no in-place update of state reached through self")
    return len(hits)


# ----------------------------------------------------------------------------------------------------------------- R-STALE
GEOMETRY_ATTRS = {"length", "lengths", "area", "areas", "angles", "angle", "normals", "normal", "cotan", "cotangent", "barycenter",
                  "barycenters", "circumcenter", "volume", "volumes", "middle", "defect", "defects", "curvature", "edge_length", "face_area"}


def stale_reads(fn):
    """get_attribute("<geometric name>") reads that are reached only when has_attribute of the same name holds (re-use of whatever
    is stored) -> [(node, container source, name)]"""
    out = []
    for c in au.calls(fn, into_funcs=True) if "into_funcs" in au.calls.__code__.co_varnames else au.calls(fn):
        if au.call_tail(c) == "get_attribute" and c.args and isinstance(c.args[0], ast.Constant) and isinstance(c.args[0].value, str):
            name = c.args[0].value
            if name.lower() not in GEOMETRY_ATTRS:
                continue
            cont = au.src(c.func.value) if isinstance(c.func, ast.Attribute) else "?"
            guarded = any(isinstance(t, ast.Call) and au.call_tail(t) == "has_attribute" and t.args and au.const(t.args[0]) == name and pol
                          for t, pol in au.guards(c))
            if guarded:
                out.append((c, cont, name))
    return out


# ----------------------------------------------------------------------------------------------------------------- driver
def anchor_modules(prop):
    """module names (relative to the package) of the anchor files of a property, from /verif/properties.jsonl"""
    import json, os
    from ..core import VERIF
    out = []
    with open(os.path.join(VERIF, "properties.jsonl")) as fh:
        for line in fh:
            d = json.loads(line)
            if d["id"] == prop:
                for f in d["anchors"]["files"]:
                    if f.startswith("mouette/") and f.endswith(".py"):
                        out.append(f[len("mouette/"):-3].replace("/", "."))
    return out


QUERY_PREFIXES = ("get_", "is_", "has_", "n_", "vertex_to", "edge_to", "face_to", "cell_to", "corner_to", "in_", "other_", "common_",
                  "opposite_", "next_", "previous_", "direct_", "half_edge_to", "connected", "find", "component", "roots", "front", "empty",
                  "distance", "contains", "project", "intersection", "union", "do_intersect", "traverse")


def apply(ctx, prop, zero=True, qmut=True, stale_modules=(), what_zero="", what_qmut="", what_stale="", modules=None):
    """Run the generic families on every function of the anchor files of `prop`.  Rule ids: <prop>-Z0 (R-ZERO), <prop>-Q0 (R-QMUT),
    <prop>-S0 (R-STALE).  Returns (#functions, #values examined)."""
    from ..core import AnalysisError
    if not zero_selfcheck():
        raise AnalysisError("R-ZERO: built-in fixture not recognised by the matcher")
    idx = index_or_none_functions(ctx.repo)
    if len(idx) < 10:
        raise AnalysisError(f"R-ZERO: only {len(idx)} index-or-None accessors derived from mesh/datatypes (14 confirmed by hand)")
    mods = list(modules) if modules is not None else anchor_modules(prop)
    n_fn = n_val = 0
    for mn in mods:
        m = ctx.repo.module(mn)
        for q, fn in m.funcs.items():
            if "<locals>" in q:
                continue           # nested functions are walked with their parent
            n_fn += 1
            if zero:
                n_val += zero_truthiness(ctx, f"{prop}-Z0", mn, fn, idx, what_zero or "index 0 is a valid element")
            if qmut and (is_property(fn) or fn.name.startswith(QUERY_PREFIXES)) and fn.args.args and fn.args.args[0].arg == "self":
                query_no_mutation(ctx, f"{prop}-Q0", mn, fn, what_qmut or "queries must not change the state they read")
            if mn in stale_modules and "as_polyline" not in fn.name:      # debug exports may show whatever is stored
                for c, cont, name in stale_reads(fn):
                    ctx.fail(f"{prop}-S0", ctx.site(mn, fn, c),
                             f"{getattr(fn, '_qualname', fn.name)}: the geometric quantity `{name}` is read back from a stored attribute of "
                             f"{cont.split('.')[-1]} when one exists instead of being computed from the current vertex positions",
                             what_stale or "a stored attribute is stale as soon as the vertices moved after it was computed")
    for mn in stale_modules:
        if mn in mods:
            ctx.ok(f"{prop}-S0", ctx.site(mn, "<module>"), "no re-use of stored geometric attributes") if not any(
                f.rule == f"{prop}-S0" and f.site.module.endswith(mn) for f in ctx.findings) else None
    return n_fn, n_val


RULE_TEXT = {
    "Z0": "R-ZERO: an element index answered by a connectivity accessor (index or None), or an optional numeric parameter, is never tested by "
          "truthiness (`if i`, `not i`, `i or d`): 0 is a valid index / priority / weight; `is None` is the accepted test",
    "Q0": "R-QMUT: a read accessor never updates in place (+=, append, sort, item store) an object it reached through self without copying it",
    "S0": "R-STALE: geometric quantities (lengths, areas, angles, normals) used by this code are computed from the current positions, never "
          "read back from a stored attribute that happens to exist",
}


def rule_texts(prop, stale=False):
    d = {f"{prop}-Z0": RULE_TEXT["Z0"], f"{prop}-Q0": RULE_TEXT["Q0"]}
    if stale:
        d[f"{prop}-S0"] = RULE_TEXT["S0"]
    return d


# ----------------------------------------------------------------------------------------------------------------- R-AXIS
def export_keeps_element_axis(ctx, rule, what):
    """`as_array()` of both attribute storages must return one row per element whatever the number of elements: a whole-array
    `np.squeeze(x)` (no axis) also removes the element axis when the container has exactly one element, so a consumer that takes
    `len()` of / indexes the exported measure fails on a one-face (one-cell, one-edge) mesh."""
    mod = "mesh.mesh_attributes"
    n = 0
    for cls in ("Attribute", "ArrayAttribute"):
        try:
            fn = ctx.repo.func(mod, f"{cls}.as_array")
        except Exception:
            ctx.undecided(rule, ctx.site(mod, f"{cls}.as_array"), f"{cls}.as_array not found", "")
            continue
        rets = [st for st in au.stmts(fn.body) if isinstance(st, ast.Return) and st.value is not None]
        bad = None
        for st in rets:
            for c in au.walk(st.value):
                if isinstance(c, ast.Call) and au.call_tail(c) == "squeeze":
                    has_axis = any(k.arg == "axis" for k in c.keywords) or (
                        len(c.args) >= 2 if not (isinstance(c.func, ast.Attribute) and not au.src(c.func.value) in ("np", "numpy")) else len(c.args) >= 1)
                    if not has_axis:
                        bad = c
        n += 1
        ctx.check(bad is None, rule, ctx.site(mod, fn, bad or fn),
                  f"{cls}.as_array squeezes every unit axis of the exported array, the element axis included",
                  f"for a container with exactly one element the export is 0-dimensional (or loses its row axis): {what}",
                  note=f"{cls}.as_array keeps one row per element")
    return n


# ----------------------------------------------------------------------------------------------------------------- R-MEMBER
def _iter_kind(cls_node):
    """what iterating / `in` ranges over for an attribute storage class: 'keys' (element indices) | 'values' | None (unknown)"""
    fns = {st.name: st for st in cls_node.body if isinstance(st, ast.FunctionDef)}
    if "__contains__" in fns:
        return "keys"          # an explicit membership test is assumed to be about element indices (checked by C05's own rules)
    it = fns.get("__iter__")
    if it is None:
        return None
    for n in au.walk(it):
        if isinstance(n, (ast.Yield, ast.Return)) and n.value is not None:
            v = n.value
            s = au.src(v)
            if isinstance(v, ast.Subscript) and au.is_self_attr(v.value):
                return "values"                      # yield self._data[i]
            if "keys()" in s or s.startswith("iter(self.") or s.startswith("range(") or (isinstance(v, ast.Name)):
                return "keys" if not isinstance(v, ast.Name) else None
    return None


def attribute_membership(ctx, rule, modname, what):
    """`k in A` with A an attribute object must mean `element k has a stored entry` for BOTH storage classes. Python falls back to
    __iter__ when a class has no __contains__; the dense storage iterates over its values, so the test compares an index with values."""
    m = ctx.repo.module(modname)
    attrmod = ctx.repo.module("mesh.mesh_attributes")
    kinds = {c: _iter_kind(attrmod.classes[c]) for c in ("Attribute", "ArrayAttribute") if c in attrmod.classes}
    n = 0
    for q, fn in m.funcs.items():
        if "<locals>" in q:
            continue
        # names / dict entries bound to attribute objects
        attr_names, attr_dicts = set(), set()
        for st in au.stmts(fn.body):
            if isinstance(st, ast.Assign) and isinstance(st.value, ast.Call) and au.call_tail(st.value) in ("get_attribute", "create_attribute"):
                for t in st.targets:
                    if isinstance(t, ast.Name):
                        attr_names.add(t.id)
                    elif isinstance(t, ast.Subscript) and isinstance(t.value, ast.Name):
                        attr_dicts.add(t.value.id)
        for c in au.walk(fn, into_funcs=True):
            if isinstance(c, ast.Compare) and len(c.ops) == 1 and isinstance(c.ops[0], (ast.In, ast.NotIn)):
                r = c.comparators[0]
                is_attr = (isinstance(r, ast.Name) and r.id in attr_names) or (
                    isinstance(r, ast.Subscript) and isinstance(r.value, ast.Name) and r.value.id in attr_dicts)
                if not is_attr:
                    continue
                n += 1
                if len(kinds) < 2 or None in kinds.values():
                    ctx.undecided(rule, ctx.site(modname, fn, c), f"{fn.name}: membership test on an attribute object, iteration protocol of the "
                                  "storage classes not read", "")
                    continue
                bad = [k for k, v in kinds.items() if v != "keys"]
                ctx.check(not bad, rule, ctx.site(modname, fn, c),
                          f"{fn.name}: `{au.src(c.ops[0].__class__()) if False else ('in' if isinstance(c.ops[0], ast.In) else 'not in')}` is applied to an "
                          f"attribute object, but {', '.join(bad)} has no __contains__ and iterates over its values, not over element indices",
                          what, note=f"{fn.name}: attribute membership ranges over element indices for both storages")
    return n
