"""MSA - mouette static analyser.

Everything in this package decides rules from the *source text* of /repo/mouette
(parsed with ``ast`` on every run).  Nothing here imports or executes mouette.
"""
