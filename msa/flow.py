"""Structured forward *must* analysis over a function body.

The repo uses only If / For / While / Try / With / Return / Raise / Break / Continue /
Assert / plain statements, so a syntax-directed abstract interpretation is an exact CFG
traversal for it (no goto, no generators that matter).  State = frozenset of facts that
hold on *every* path reaching the point (meet = intersection).

A client supplies:
  * ``stmt(state, st) -> state``     transfer of a *simple* statement (also used to check uses)
  * ``test(state, expr) -> state``   effect of evaluating a condition (checks uses, calls)
  * ``refine(state, expr, branch) -> state``   facts learnt from the outcome of a condition
Exits are collected as (kind, node, state) with kind in return / raise / fall.
"""
from __future__ import annotations
import ast

TOP = None  # unreachable


def meet(a, b):
    if a is TOP:
        return b
    if b is TOP:
        return a
    return a & b


class Flow:
    def __init__(self, stmt, test=None, refine=None):
        self.t_stmt = stmt
        self.t_test = test or (lambda s, e: s)
        self.t_refine = refine or (lambda s, e, b: s)
        self.exits = []

    def run(self, body, state):
        self.exits = []
        out, brk, cont = self._block(body, state)
        if out is not TOP:
            self.exits.append(("fall", None, out))
        return out

    # returns (fallthrough_state, break_state, continue_state)
    def _block(self, body, state):
        brk = cont = TOP
        for st in body:
            if state is TOP:
                break
            state, b, c = self._stmt(st, state)
            brk, cont = meet(brk, b), meet(cont, c)
        return state, brk, cont

    def _stmt(self, st, state):
        if isinstance(st, ast.If):
            s0 = self.t_test(state, st.test)
            s1, b1, c1 = self._block(st.body, self.t_refine(s0, st.test, True))
            s2, b2, c2 = self._block(st.orelse, self.t_refine(s0, st.test, False))
            return meet(s1, s2), meet(b1, b2), meet(c1, c2)
        if isinstance(st, (ast.For, ast.AsyncFor, ast.While)):
            head = state
            for _ in range(8):
                if isinstance(st, ast.While):
                    h = self.t_test(head, st.test)
                    body_in = self.t_refine(h, st.test, True)
                    exit_state = self.t_refine(h, st.test, False)
                    if isinstance(st.test, ast.Constant) and st.test.value is True:
                        exit_state = TOP
                else:
                    h = self.t_stmt(head, _ForHead(st))
                    body_in = h
                    exit_state = h
                s, b, c = self._block(st.body, body_in)
                new_head = meet(state, meet(s, c))
                if new_head == head:
                    break
                head = new_head
            s_else, b2, c2 = self._block(st.orelse, exit_state) if st.orelse else (exit_state, TOP, TOP)
            return meet(s_else, b), b2, c2
        if isinstance(st, (ast.With, ast.AsyncWith)):
            s = state
            for it in st.items:
                s = self.t_stmt(s, ast.Expr(value=it.context_expr, lineno=st.lineno, col_offset=0))
            return self._block(st.body, s)
        if isinstance(st, ast.Try):
            s, b, c = self._block(st.body, state)
            # a handler may start after any prefix of the body: facts that held before the try
            # and are never killed are all we may assume -> use the entry state met with the exit
            h_in = meet(state, s) if s is not TOP else state
            outs = [self._block(st.orelse, s) if st.orelse else (s, TOP, TOP)]
            for h in st.handlers:
                outs.append(self._block(h.body, h_in))
            so = bo = co = TOP
            for (x, y, z) in outs:
                so, bo, co = meet(so, x), meet(bo, y), meet(co, z)
            bo, co = meet(bo, b), meet(co, c)
            if st.finalbody:
                so2, b3, c3 = self._block(st.finalbody, so if so is not TOP else state)
                so = so2 if so is not TOP else TOP
                bo, co = meet(bo, b3), meet(co, c3)
            return so, bo, co
        if isinstance(st, ast.Return):
            s = self.t_stmt(state, st)
            self.exits.append(("return", st, s))
            return TOP, TOP, TOP
        if isinstance(st, ast.Raise):
            s = self.t_stmt(state, st)
            self.exits.append(("raise", st, s))
            return TOP, TOP, TOP
        if isinstance(st, ast.Break):
            return TOP, state, TOP
        if isinstance(st, ast.Continue):
            return TOP, TOP, state
        if isinstance(st, (ast.FunctionDef, ast.AsyncFunctionDef, ast.ClassDef)):
            return state, TOP, TOP
        if isinstance(st, ast.Assert):
            s = self.t_test(state, st.test)
            return self.t_refine(s, st.test, True), TOP, TOP
        return self.t_stmt(state, st), TOP, TOP


class _ForHead(ast.stmt):
    """Pseudo statement standing for 'evaluate iter, bind target' of a for loop."""
    _fields = ("iter", "target")

    def __init__(self, loop):
        super().__init__()
        self.iter = loop.iter
        self.target = loop.target
        self.lineno = loop.lineno
        self.col_offset = loop.col_offset
        self.loop = loop


def always_terminates(body) -> bool:
    """True when no path falls off the end of `body` (ends in return / raise on all paths)."""
    f = Flow(lambda s, st: s)
    out = f.run(body, frozenset())
    return out is TOP
